"""Shared machinery of every check: Coq build, case evaluation inside Coq, findings,
evidence.  One property = one module under harness/props/ exposing run(ctx)."""
import threading
import os, sys, re, json, time, subprocess, hashlib, random, fcntl, importlib, traceback, collections
from concurrent.futures import ThreadPoolExecutor

VERIF = os.path.dirname(os.path.dirname(os.path.abspath(__file__)))
COQ = os.environ.get('VERIF_COQ') or os.path.join(VERIF, 'coq')     # VERIF_COQ: a scratch copy (seeded-change evaluation)
REPO = os.environ.get('VERIF_REPO', '/repo')
WORK = os.path.join(VERIF, 'work')
CASES = os.path.join(COQ, 'Cases')
NPROC = int(os.environ.get('VERIF_JOBS', '16'))
GUARD = 'PYASN1_VERIF'

os.environ.setdefault('PYTHONHASHSEED', '0')
os.environ[GUARD] = '1'


def use_repo():
    """Make `import pyasn1` resolve to REPO's working tree and nothing else."""
    sys.path[:] = [p for p in sys.path if 'pyasn1' not in p]
    if REPO not in sys.path:
        sys.path.insert(0, REPO)
    import pyasn1
    assert os.path.abspath(pyasn1.__file__).startswith(os.path.abspath(REPO) + os.sep), pyasn1.__file__


class HarnessError(Exception):
    pass


# ----------------------------------------------------------------------------------------------
# Coq build

COQ_DIRS = ['Base', 'Spec', 'Model', 'Gen', 'Proofs', 'Props']
FORBIDDEN = re.compile(r'\b(Admitted|admit|Axiom|Axioms|Parameter|Parameters|Conjecture|Conjectures|'
                       r'Unset\s+Guard|bypass_check|Unset\s+Positivity|Unset\s+Universe|'
                       r'Admit\s+Obligations|type-in-type|impredicative-set|native_compute)\b')


def coq_sources():
    out = []
    for d in COQ_DIRS:
        for root, _, files in os.walk(os.path.join(COQ, d)):
            for f in sorted(files):
                if f.endswith('.v'):
                    out.append(os.path.relpath(os.path.join(root, f), COQ))
    return sorted(out)


def strip_comments(src):
    out, depth, i = [], 0, 0
    while i < len(src):
        if src.startswith('(*', i):
            depth += 1; i += 2
        elif src.startswith('*)', i) and depth:
            depth -= 1; i += 2
        else:
            if not depth:
                out.append(src[i])
            i += 1
    return ''.join(out)


def forbidden_vernacular():
    """[(file, word)] for every forbidden command outside comments; Variable/Hypothesis must be in a Section."""
    hits = []
    for rel in coq_sources():
        src = strip_comments(open(os.path.join(COQ, rel)).read())
        for m in FORBIDDEN.finditer(src):
            hits.append((rel, m.group(0)))
        depth = 0
        for line in src.splitlines():
            s = line.strip()
            if re.match(r'Section\s', s): depth += 1
            elif re.match(r'End\s', s) and depth: depth -= 1
            elif depth == 0 and re.match(r'(Variable|Variables|Hypothesis|Hypotheses|Context)\b', s):
                hits.append((rel, s.split()[0] + ' outside Section'))
    return hits


def _write_if_changed(path, text):
    try:
        if open(path).read() == text:
            return False
    except FileNotFoundError:
        pass
    os.makedirs(os.path.dirname(path), exist_ok=True)
    with open(path + '.tmp', 'w') as f:
        f.write(text)
    os.replace(path + '.tmp', path)
    return True


class Build:
    def __init__(self, ok, log, failed_files, wall):
        self.ok, self.log, self.failed_files, self.wall = ok, log, failed_files, wall

    def vo_ok(self, rel):
        """Is rel (a .v path relative to coq/) compiled and up to date?"""
        r = subprocess.run(['make', '-q', rel + 'o'], cwd=COQ, stdout=subprocess.DEVNULL,
                           stderr=subprocess.DEVNULL)
        return r.returncode == 0 and os.path.exists(os.path.join(COQ, rel + 'o'))

    def error_excerpt(self, n=30):
        lines = self.log.splitlines()
        idx = [i for i, l in enumerate(lines) if 'Error' in l]
        if not idx:
            return '\n'.join(lines[-n:])
        i = idx[0]
        return '\n'.join(lines[max(0, i - 3):i + n])


def build(timeout=3000):
    """Regenerate Gen/Tables.v from REPO, then a full .vo build (never -vos) under a lock."""
    from . import tables
    os.makedirs(WORK, exist_ok=True)
    os.makedirs(CASES, exist_ok=True)
    t0 = time.time()
    with open(os.path.join(COQ, '.build.lock'), 'w') as lock:      # one build at a time per Coq tree
        fcntl.flock(lock, fcntl.LOCK_EX)
        tables.regenerate()
        proj = '-R . PV\n' + '\n'.join(coq_sources()) + '\n'
        changed = _write_if_changed(os.path.join(COQ, '_CoqProject'), proj)
        if changed or not os.path.exists(os.path.join(COQ, 'Makefile')):
            subprocess.run(['coq_makefile', '-f', '_CoqProject', '-o', 'Makefile'], cwd=COQ, check=True,
                           stdout=subprocess.DEVNULL)
        try:
            r = subprocess.run(['make', '-k', '-j%d' % NPROC], cwd=COQ, stdout=subprocess.PIPE,
                               stderr=subprocess.STDOUT, text=True, timeout=timeout)
            log, ok = r.stdout, r.returncode == 0
        except subprocess.TimeoutExpired as e:
            log, ok = (e.stdout or '') + '\nBUILD TIMEOUT', False
        with open(os.path.join(WORK, 'build.log'), 'w') as f:
            f.write(log)
    failed = sorted(set(re.findall(r'File "\./([^"]+\.v)", line \d+', log))) if not ok else []
    return Build(ok, log, failed, time.time() - t0)


def tables_unmodelled():
    """the entries harness/tables.py could not map, as listed at the end of Gen/Tables.v"""
    try:
        return re.findall(r'\(\* UNMODELLED: (.*?) \*\)', open(os.path.join(COQ, 'Gen', 'Tables.v')).read())
    except OSError:
        return ['Gen/Tables.v missing']


def coqc_capture(rel, timeout=900):
    """Compile one project file directly and return its stdout (Print Assumptions output)."""
    r = subprocess.run(['coqc', '-R', '.', 'PV', rel], cwd=COQ, stdout=subprocess.PIPE,
                       stderr=subprocess.STDOUT, text=True, timeout=timeout)
    return r.returncode, r.stdout


def theorems_of(rel):
    src = strip_comments(open(os.path.join(COQ, rel)).read())
    return re.findall(r'^\s*(?:Theorem|Lemma|Corollary|Example|Fact)\s+([A-Za-z0-9_\']+)', src, re.M)


def parse_assumptions(out):
    """Print Assumptions output -> {'closed': n, 'axioms': [names]}"""
    closed = len(re.findall(r'Closed under the global context', out))
    axioms = []
    for blk in re.findall(r'Axioms:\n((?:.+\n?)+?)(?:\n|$)', out):
        for line in blk.splitlines():
            m = re.match(r'^([A-Za-z_][\w\.\']*)\s*:', line)
            if m:
                axioms.append(m.group(1))
    return {'closed': closed, 'axioms': sorted(set(axioms))}


# ----------------------------------------------------------------------------------------------
# Evaluating the model inside Coq

_case_counter = [0]
_case_lock = threading.Lock()


def _next_case_number():
    """file numbers are handed out under a lock: case files are written from the worker threads"""
    with _case_lock:
        _case_counter[0] += 1
        return _case_counter[0]


def _run_case_file(path, timeout):
    r = subprocess.run(['bash', '-c', 'ulimit -s unlimited 2>/dev/null; exec coqc -R "$0" PV "$1"', COQ, path], cwd=CASES, stdout=subprocess.PIPE,
                       stderr=subprocess.STDOUT, text=True, timeout=timeout)
    for ext in ('.vo', '.vok', '.vos', '.glob'):
        try: os.remove(path[:-2] + ext)
        except OSError: pass
    try: os.remove(os.path.join(os.path.dirname(path), '.' + os.path.basename(path)[:-2] + '.aux'))
    except OSError: pass
    return r.returncode, r.stdout


MAX_SHARD_CHARS = 250000


def _shards(exprs, shard):
    """consecutive index ranges of at most `shard` expressions and about MAX_SHARD_CHARS characters (long literals
    get files of their own, so that no single file takes minutes)"""
    out, start, chars = [], 0, 0
    for i, e in enumerate(exprs):
        if i > start and (i - start >= shard or chars + len(e) > MAX_SHARD_CHARS):
            out.append((start, i)); start, chars = i, 0
        chars += len(e)
    if start < len(exprs):
        out.append((start, len(exprs)))
    return out


def _eval_range(write_file, parse, lo, hi, timeout, depth=0):
    """evaluate expressions lo..hi in one file; when coqc does not finish in time (a loaded machine, an expensive
    shard) the range is split in two and each half gets twice the time, down to single expressions"""
    fn = write_file(lo, hi)
    try:
        rc, out = _run_case_file(fn, timeout)
    except subprocess.TimeoutExpired:
        try: os.remove(fn)
        except OSError: pass
        if hi - lo <= 1 or depth >= 4:
            raise HarnessError('coqc did not finish within %d s on expression(s) %d..%d' % (timeout, lo, hi - 1))
        mid = (lo + hi) // 2
        return _eval_range(write_file, parse, lo, mid, timeout * 2, depth + 1) + _eval_range(write_file, parse, mid, hi, timeout * 2, depth + 1)
    if rc != 0:
        raise HarnessError('coqc failed on %s:\n%s' % (fn, out[-3000:]))
    r = parse(lo, fn, out)
    try: os.remove(fn)
    except OSError: pass
    return r


def coq_bools(name, imports, exprs, defs='', shard=300, timeout=900, keep=False):
    """Evaluate a list of closed Coq boolean expressions with vm_compute.
    Returns the list of indices whose value is false.  Raises HarnessError if Coq rejects a file
    (a harness bug or a model that no longer compiles)."""
    if not exprs:
        return []
    os.makedirs(CASES, exist_ok=True)

    def write_file(lo, hi):
        fn = os.path.join(CASES, 'c_%s_%d_%d.v' % (re.sub(r'\W', '_', name), os.getpid(), _next_case_number()))
        body = ['From PV Require Import %s.' % imports, 'Local Open Scope N_scope.', defs,
                'Definition cs : list bool := [']
        body.append(';\n'.join('(%s)' % e for e in exprs[lo:hi]))
        body.append('].\nEval vm_compute in (failing cs).\n')
        with open(fn, 'w') as f:
            f.write('\n'.join(body))
        return fn

    def parse(lo, fn, out):
        m = re.search(r'=\s*\[(.*?)\]\s*:\s*list nat', out, re.S)
        if not m:
            raise HarnessError('cannot parse coqc output for %s:\n%s' % (fn, out[-2000:]))
        return [lo + int(x) for x in re.findall(r'\d+', m.group(1).replace('%nat', ''))]

    with ThreadPoolExecutor(max_workers=NPROC) as ex:
        results = list(ex.map(lambda r: _eval_range(write_file, parse, r[0], r[1], timeout), _shards(exprs, shard)))
    return sorted(x for r in results for x in r)


def coq_codes(name, imports, exprs, defs='', shard=None, timeout=900):
    """Evaluate closed Coq expressions of type N (0 = agree, 1 = disagree, 2 = model declines, ...).
    Returns {index: code} for the non-zero ones."""
    if not exprs:
        return {}
    if shard is None:
        shard = max(25, min(300, len(exprs) // (2 * NPROC) + 1))
    os.makedirs(CASES, exist_ok=True)

    def write_file(lo, hi):
        fn = os.path.join(CASES, 'k_%s_%d_%d.v' % (re.sub(r'\W', '_', name), os.getpid(), _next_case_number()))
        body = ['From PV Require Import %s.' % imports, 'Local Open Scope N_scope.', defs,
                'Definition cs : list N := [']
        body.append(';\n'.join('(%s)' % e for e in exprs[lo:hi]))
        body.append('].\nEval vm_compute in (nonzero cs).\n')
        with open(fn, 'w') as f:
            f.write('\n'.join(body))
        return fn

    def parse(lo, fn, out):
        m = re.search(r'=\s*\[(.*?)\]\s*:\s*list \(nat \* N\)', out, re.S)
        if not m:
            raise HarnessError('cannot parse coqc output for %s:\n%s' % (fn, out[-2000:]))
        return [(lo + int(a), int(b)) for a, b in re.findall(r'\(\s*(\d+)\s*(?:%nat)?\s*,\s*(\d+)\s*(?:%N)?\s*\)', m.group(1))]

    with ThreadPoolExecutor(max_workers=NPROC) as ex:
        results = list(ex.map(lambda r: _eval_range(write_file, parse, r[0], r[1], timeout), _shards(exprs, shard)))
    return dict(x for r in results for x in r)


def coq_show(imports, expr, defs='', timeout=300):
    """vm_compute one expression and return Coq's printed value (for replays and debugging)."""
    os.makedirs(CASES, exist_ok=True)
    fn = os.path.join(CASES, 'show_%d_%d.v' % (os.getpid(), _next_case_number()))
    with open(fn, 'w') as f:
        f.write('From PV Require Import %s.\nLocal Open Scope N_scope.\n%s\nEval vm_compute in (%s).\n' % (imports, defs, expr))
    rc, out = _run_case_file(fn, timeout)
    try: os.remove(fn)
    except OSError: pass
    return out.strip()


# ----------------------------------------------------------------------------------------------
# Per-run context

class Ctx:
    def __init__(self, pid, tier, seed, scale=1):
        self.pid, self.tier, self.seed, self.scale = pid, tier, seed, scale
        self.rng = random.Random(seed * 1000003 + sum(map(ord, pid)))
        self.evaluations = 0
        self.distinct = set()
        self.stats = collections.Counter()
        self.samples = []
        self.prop_failures = []     # the property itself fails on the implementation (concrete input)
        self.corr_failures = []     # model and implementation disagree
        self.notes = []
        self.exhaustive = False
        self.rule = ''
        self.model_ok = True        # set False when the Coq model could not be evaluated

    def n(self, quick, thorough):
        return (thorough if self.tier == 'thorough' else quick) * self.scale

    def case(self, key, nontrivial=True):
        self.evaluations += 1
        if nontrivial:
            self.distinct.add(hashlib.blake2b(repr(key).encode(), digest_size=8).digest())

    def sample(self, s, limit=6):
        if len(self.samples) < limit:
            self.samples.append(s)

    def prop_fail(self, what, case, finding=None):
        self.prop_failures.append({'kind': 'prop', 'what': what, 'case': case, 'finding': finding})

    def corr_fail(self, what, case, finding=None):
        self.corr_failures.append({'kind': 'corr', 'what': what, 'case': case, 'finding': finding})


def load_findings():
    with open(os.path.join(VERIF, 'known_findings.json')) as f:
        return json.load(f)['findings']


def open_findings(pid):
    return {f['id']: f for f in load_findings() if pid in f['properties'] and f['status'] == 'open'}


def jsonable(x):
    """tuples and bytes survive a JSON round trip (see unjson)"""
    if isinstance(x, tuple): return {'$t': [jsonable(y) for y in x]}
    if isinstance(x, (bytes, bytearray)): return {'$b': bytes(x).hex()}
    if isinstance(x, list): return [jsonable(y) for y in x]
    if isinstance(x, dict): return {str(k): jsonable(v) for k, v in x.items()}
    if isinstance(x, (str, int, float, bool)) or x is None: return x
    return repr(x)


def unjson(x):
    if isinstance(x, dict):
        if set(x) == {'$t'}: return tuple(unjson(y) for y in x['$t'])
        if set(x) == {'$b'}: return bytes.fromhex(x['$b'])
        return {k: unjson(v) for k, v in x.items()}
    if isinstance(x, list): return [unjson(y) for y in x]
    return x


def write_replay(pid, failure):
    d = os.path.join(WORK, 'replays')
    os.makedirs(d, exist_ok=True)
    blob = json.dumps(jsonable({'property': pid, **failure}), sort_keys=True, indent=1)
    path = os.path.join(d, '%s-%s.json' % (pid, hashlib.blake2b(blob.encode(), digest_size=6).hexdigest()))
    with open(path, 'w') as f:
        f.write(blob)
    return path


PROP_MODULES = {}


def prop_module(pid):
    use_repo()
    return importlib.import_module('harness.props.%s' % pid.lower())


class CheckTimeout(Exception):
    pass


def run_property(pid, tier, replay=None):
    t0 = time.time()
    seed = int(os.environ.get('VERIF_SEED', '0') or 0)
    tier = os.environ.get('VERIF_TIER', tier) if tier is None else tier
    mod = prop_module(pid)
    if replay:
        data = unjson(json.load(open(replay)))
        case = data.get('case', data) if isinstance(data, dict) else {}
        if isinstance(case, dict) and case.get('traceback'):
            # an exception that escaped the run: the replay is the run itself
            print(case.get('exception')); print(case['traceback'])
            print('re-running the %s check (seed %s) to reproduce' % (pid, os.environ.get('VERIF_SEED', '0')))
            return run_property(pid, tier)
        try:
            return mod.replay(data)
        except (KeyError, TypeError, IndexError, AttributeError) as e:
            # a failure kind whose case record the module's replay does not take apart (systematic grids added later):
            # the replay is the run that produced it, at the seed recorded in the environment
            print('replay of this record needs the whole check (%s: %s); re-running %s' % (type(e).__name__, e, pid))
            return run_property(pid, tier)

    # 1. tie part (a): regenerate tables, rebuild and re-check every proof
    bld = build()
    props_rel = 'Props/%s.v' % pid
    thms = theorems_of(props_rel) if os.path.exists(os.path.join(COQ, props_rel)) else []
    proof_ok = bool(thms) and bld.vo_ok(props_rel)
    forb = forbidden_vernacular()
    assumptions = {'closed': 0, 'axioms': []}
    # the regenerated tables must hold nothing the model does not know (Proofs/TablesModelled.v); otherwise the
    # theorems are about tables that are not the code's
    tables_ok = bld.vo_ok('Proofs/TablesModelled.v')
    if not tables_ok:
        proof_ok = False
    if proof_ok:
        rc, out = coqc_capture(props_rel)
        assumptions = parse_assumptions(out)
        if rc != 0:
            proof_ok = False
    if forb:
        proof_ok = False

    # 2. tie part (b): correspondence + search for a failing input on the implementation
    ctx = Ctx(pid, tier, seed)
    harness_error = None
    # watchdog: a run that does not come back (an endless loop in the implementation or in the check) is reported,
    # with the stack it was stopped at, rather than left hanging; the limit is far above any run on an intact tree
    import signal
    limit = int(os.environ.get('VERIF_RUN_LIMIT') or (2700 if tier == 'quick' else 6 * 3600))
    def _expired(signum, frame):
        raise CheckTimeout('run not finished after %d s' % limit)
    old_handler = signal.signal(signal.SIGALRM, _expired)
    signal.alarm(limit)
    try:
        try:
            mod.run(ctx)
        finally:
            signal.alarm(0)
            signal.signal(signal.SIGALRM, old_handler)
    except HarnessError as e:
        harness_error = str(e)
        ctx.model_ok = False
    except Exception as e:
        # An exception escaping the run: if it comes out of the implementation at a place where the harness
        # expected none (e.g. a type refusing its own encoding), that is a concrete failure of the property on
        # the call in the traceback; if it comes out of the harness itself the check is broken.  Either way
        # the property is not shown to hold on this tree: report it, never crash without a VIOLATION line.
        import traceback
        tb = traceback.format_exc()
        in_impl = os.path.join(REPO, 'pyasn1') in tb
        ctx.prop_fail(('the implementation raised %s where the check expected it to succeed' if in_impl
                       else 'the check itself raised %s') % type(e).__name__,
                      {'exception': '%s: %s' % (type(e).__name__, str(e)[:300]), 'traceback': tb[-3000:],
                       'origin': 'implementation' if in_impl else 'harness'})
    suspicious = (not proof_ok) or ctx.corr_failures or harness_error
    extra = []
    if suspicious and not ctx.prop_failures:
        # the property is no longer shown to hold: enlarge the search for a concrete failing input
        for k in (1, 2):
            c2 = Ctx(pid, tier, seed + 7919 * k, scale=4)
            c2.search_only = True
            try:
                mod.run(c2)
            except HarnessError:
                pass
            except Exception:
                pass
            extra.append(c2)
            if c2.prop_failures:
                break

    # 3. decide
    known = open_findings(pid)
    all_prop = ctx.prop_failures + [f for c in extra for f in c.prop_failures]
    viol, known_hit = [], collections.OrderedDict()
    for f in all_prop:
        if f.get('finding') in known:
            known_hit.setdefault(f['finding'], f)
        else:
            viol.append(f)
    lines = []
    for fid, f in known_hit.items():
        lines.append('KNOWN-FINDING: property=%s %s %s' % (pid, fid, known[fid]['what']))
    exit_code = 0
    nviol = 0
    if viol:
        seen = set()
        for f in viol:
            k = f['what']
            if k in seen: continue
            seen.add(k)
            # a run that broke inside the check itself has no concrete failing input to show
            no_input = isinstance(f.get('case'), dict) and f['case'].get('origin') == 'harness'
            lines.append('VIOLATION property=%s replay=%s%s' % (pid, write_replay(pid, f),
                                                               ' no-failing-input-found' if no_input else ''))
            nviol += 1
            if nviol >= 5: break
        exit_code = 1
    elif suspicious:
        # corr failures attributable to a listed finding do not make the check fail
        unexplained_corr = [f for f in ctx.corr_failures if f.get('finding') not in known]
        if (not proof_ok) or unexplained_corr or harness_error:
            what = []
            if not thms:
                what.append('no theorems found for %s' % pid)
            elif not proof_ok:
                what.append('proof obligation no longer checks: %s (failed files: %s)' % (
                    props_rel if tables_ok else 'Proofs/TablesModelled.v tables_fully_modelled (the dispatch tables of the '
                    'code hold entries the model does not know: %s)' % '; '.join(tables_unmodelled()[:12]),
                    ', '.join(bld.failed_files) or '-'))
                if forb: what.append('forbidden vernacular: %r' % forb[:5])
            if harness_error:
                what.append('model could not be evaluated: ' + harness_error[:1500])
            rep = {'kind': 'proof-or-correspondence', 'what': '; '.join(what) or 'correspondence broken',
                   'theorems': thms, 'build_error': bld.error_excerpt() if not bld.ok else '',
                   'correspondence_failures': unexplained_corr[:10]}
            lines.append('VIOLATION property=%s replay=%s no-failing-input-found' % (pid, write_replay(pid, rep)))
            nviol += 1
            exit_code = 1
        for f in ctx.corr_failures:
            if f.get('finding') in known and f['finding'] not in known_hit:
                known_hit[f['finding']] = f
                lines.append('KNOWN-FINDING: property=%s %s %s' % (pid, f['finding'], known[f['finding']]['what']))

    # 4. evidence
    tb = ['Coq 8.16.1 kernel incl. vm_compute (no native_compute)',
          'axioms reported by Print Assumptions for Props/%s.v: %s' % (
              pid, ', '.join(assumptions['axioms']) or 'none (%d theorems closed under the global context)' % assumptions['closed']),
          'harness/tables.py (reflection translator emitting Gen/Tables.v from the imported /repo modules)',
          'correspondence harness (harness/props/%s.py, harness/*.py): runs /repo code, canonicalises, prints Coq literals' % pid.lower(),
          'CPython built-ins and generator protocol are modelled, not verified (DESIGN.md section 4)']
    ev = {
        'property_id': pid, 'tier': tier, 'seed': seed, 'level': 'proof',
        'coverage': {
            'obligations': len(thms), 'discharged': len(thms) if proof_ok else 0,
            'checker_cmd': 'cd /verif/coq && make -k -j16 (full .vo build via coq_makefile) && coqc -R . PV %s' % props_rel,
            'trusted_base': tb,
            'theorems': thms,
            'print_assumptions': assumptions,
            'evaluations': ctx.evaluations, 'distinct_nontrivial': len(ctx.distinct),
            'rule': ctx.rule, 'samples': ctx.samples or ['(none)'],
            'exhaustive': ctx.exhaustive,
            'input_distribution': dict(ctx.stats),
            'correspondence_failures': len(ctx.corr_failures),
            'property_failures_on_implementation': len(all_prop),
            'known_findings_met': list(known_hit.keys()),
            'escalated_search_runs': len(extra),
            'notes': ctx.notes,
            'coq_build_s': round(bld.wall, 1),
        },
        'assumptions': tb,
        'wall_s': round(time.time() - t0, 2),
        'violations': nviol,
    }
    # evidence/ describes /repo only: a run pointed at another tree (seeded-change evaluation) writes under work/
    evdir = os.path.join(VERIF, 'evidence') if os.path.realpath(REPO) == '/repo' else os.path.join(WORK, 'evidence_other_tree')
    os.makedirs(evdir, exist_ok=True)
    with open(os.path.join(evdir, '%s.json' % pid), 'w') as f:
        json.dump(jsonable(ev), f, indent=1)
    for l in lines:
        print(l)
    print('%s tier=%s seed=%d: %d theorems %s, %d cases (%d distinct non-trivial), %d corr failures, %d property failures, %.1fs'
          % (pid, tier, seed, len(thms), 'checked' if proof_ok else 'NOT CHECKED', ctx.evaluations,
             len(ctx.distinct), len(ctx.corr_failures), len(all_prop), time.time() - t0))
    return exit_code

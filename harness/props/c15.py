"""C15 - DER/CER decoders enforce the canonical restrictions they implement, everywhere."""
from harness import core, codec, universe as U, implrun as I, gen, dertree
from harness.gen import base_desc, outer_tags
from harness.coqio import cbytes

STRINGS = ('octs', 'bits', 'str')


def walk(T, v, node, path, out):
    """collect (path, kind) of the nodes of a DER tree that a single non-canonical rewrite applies to"""
    while T[0] in ('imp', 'exp'):
        if T[0] == 'exp':
            out.append((path, 'cons'))
            if not node.cons or len(node.kids) != 1: return
            node, path = node.kids[0], path + (0,)
        T = T[2]
    k = T[0]
    if k == 'bool':
        if node.content == b'\xff': out.append((path, 'bool'))
    elif k in STRINGS:
        if not node.cons: out.append((path, 'bits' if k == 'bits' else 'octs'))
    elif k in ('seqof', 'setof'):
        out.append((path, 'cons'))
        for i, kid in enumerate(node.kids):
            # SET OF is sorted: pair children with the element type only (values are read off the node)
            # SET OF is sorted by the encoder, so which value a child belongs to is unknown: below it only
            # what can be read off the node itself is rewritten (v = None)
            walk(T[1], v[1][i] if (v is not None and k == 'seqof' and i < len(v[1])) else None, kid, path + (i,), out)
    elif k in ('seq', 'set'):
        out.append((path, 'cons'))
        if v is None: return
        comps = [(ft, fv) for (p, ft), fv in zip(T[1], v[1])
                 if fv is not None and not (isinstance(p, tuple) and codec.default_equal(ft, fv, p[1]))]
        if k == 'seq':
            if len(comps) != len(node.kids): return
            for i, ((ft, fv), kid) in enumerate(zip(comps, node.kids)):
                walk(ft, fv, kid, path + (i,), out)
        else:
            for i, kid in enumerate(node.kids):
                for ft, fv in comps:
                    o = outer_tags(ft) if ft[0] != 'choice' else outer_tags(ft[1][fv[1]])
                    if o and kid.tag in o:
                        walk(ft, fv, kid, path + (i,), out); break
    elif k == 'choice':
        if v is None: return
        walk(T[1][v[1]], v[2], node, path, out)


def get(node, path):
    for i in path:
        node = node.kids[i]
    return node


def rewrite(root_bytes, path, kind, rng):
    root, _ = dertree.parse(root_bytes)
    n = get(root, path)
    if kind == 'cons':
        n.indef = True; what = 'definite -> indefinite length'
    elif kind == 'bool':
        n.content = bytes([rng.choice([1, 2, 0x7f, 0x80, 0xfe])]); what = 'FF -> other non-zero BOOLEAN octet'
    else:
        t = 0x03 if kind == 'bits' else 0x04
        c = n.content
        empty = (c == b'' if kind != 'bits' else c in (b'', b'\x00'))
        form = rng.choice(['one', 'one', 'two', 'none' if empty else 'one'])
        if form == 'none':
            kids = []                                   # the empty string as a constructed encoding without segments
        elif form == 'two' and len(c) >= (3 if kind == 'bits' else 2):
            if kind == 'bits':                          # first segment: whole octets, no unused bits
                kids = [dertree.Node(t, [], False, content=b'\x00' + c[1:2]), dertree.Node(t, [], False, content=c[:1] + c[2:])]
            else:
                kids = [dertree.Node(t, [], False, content=c[:1]), dertree.Node(t, [], False, content=c[1:])]
        else:
            kids = [dertree.Node(t, [], False, content=c)]
        n.cons, n.kids, n.content = True, kids, b''
        what = 'primitive -> segmented string (%s segment%s)' % ({'none': 'no', 'two': 'two'}.get(form, 'one'), '' if form == 'one' else 's')
    return root.ser(), what


def grid_cases(ctx):
    """the product the property quantifies over, made systematically rather than hoped for: each string
    type and BOOLEAN x taggings (none, IMPLICIT/EXPLICIT, short/long tag numbers, stacked) x positions
    (alone; first, middle and last of several equal-typed elements of SEQUENCE OF / SET OF; a SEQUENCE
    member after an equal-typed member; inside an EXPLICIT-tagged inner SEQUENCE)"""
    g = gen.Gen(ctx.rng)
    leaves = [('octs',), ('bits',), ('bool',), ('str', 'UTF8String'), ('str', 'IA5String'), ('str', 'UTCTime')]
    def taggings(L):
        n1, n2 = ctx.rng.choice([31, 40, 127, 128, 1000, 16384]), ctx.rng.choice([0, 5, 30])
        return [L, ('imp', (128, 0, n2), L), ('imp', (128, 0, n1), L), ('exp', (128, 0, n2), L), ('exp', (64, 0, n1), L),
                ('imp', (192, 0, n1), ('exp', (128, 0, n2), L)), ('exp', (128, 0, n1), ('imp', (64, 0, n1), L))]
    out = []
    for L in leaves:
        ts = taggings(L)
        if ctx.tier == 'quick':
            ts = ctx.rng.sample(ts, 3)
        for E in ts:
            vs = [g.val(E) for _ in range(3)]
            if L == ('bool',):
                vs = [('b', True)] * 3
            elif L[0] == 'octs': vs[1] = ('o', b'')          # the empty string: its constructed form may have no segment at all
            elif L[0] == 'bits': vs[1] = ('bits', ())
            elif L[0] == 'str' and L[1] not in ('UTCTime', 'GeneralizedTime'): vs[1] = ('chars', '')
            shapes = [(E, vs[0]), (('seqof', E), ('list', vs)), (('setof', E), ('list', vs)),
                      (('seq', [('req', ('int',)), ('req', E), ('req', ('exp', (128, 0, 9), ('seq', [('req', E), ('opt', ('null',))])))]),
                       ('rec', [('i', 5), vs[0], ('rec', [vs[1], None])]))]
            for T, v in shapes:
                if not gen.wf(T):
                    continue
                try:
                    out.append(codec.Case(T, v))
                except Exception:
                    ctx.stats['grid_unbuildable'] += 1
    return out


def open_type_sites(ctx):
    """the same rewrites INSIDE values of open types: records whose ANY DEFINED BY member (bare, EXPLICIT-tagged, and as the
    elements of a SET OF / SEQUENCE OF ANY) holds a BOOLEAN, a string, or a SEQUENCE of them; decoded by DER (and CER for
    the BOOLEAN) with the open types resolved - the strict decoder is strict down there as well"""
    from pyasn1.type import univ, namedtype, opentype, tag
    der = I.ENC['DER']
    inner_types = {1: univ.Boolean(), 2: univ.OctetString(), 3: univ.BitString(),
                   4: univ.Sequence(componentType=namedtype.NamedTypes(namedtype.NamedType('b', univ.Boolean()), namedtype.NamedType('o', univ.OctetString()))),
                   5: univ.SequenceOf(componentType=univ.Boolean())}
    def inner_value(g):
        if g == 1: return univ.Boolean(True)
        if g == 2: return univ.OctetString(b'abc')
        if g == 3: return univ.BitString(binValue='1011000010100101')
        if g == 4:
            v = inner_types[4].clone(); v['b'] = True; v['o'] = b'xy'; return v
        v = inner_types[5].clone(); v.extend([True, True]); return v
    def record(base_cls, member):
        return base_cls(componentType=namedtype.NamedTypes(
            namedtype.NamedType('id', univ.Integer()),
            namedtype.NamedType('blob', member, openType=opentype.OpenType('id', inner_types))))
    members = [('ANY', univ.Any(), False), ('[0] EXPLICIT ANY', univ.Any().subtype(explicitTag=tag.Tag(128, 32, 0)), False),
               ('SET OF ANY', univ.SetOf(componentType=univ.Any()), True), ('SEQUENCE OF ANY', univ.SequenceOf(componentType=univ.Any()), True),
               ('[1] IMPLICIT SEQUENCE OF ANY', univ.SequenceOf(componentType=univ.Any()).subtype(implicitTag=tag.Tag(128, 32, 1)), True)]
    def sites_below(node, path, out, inside):
        if inside:
            cls, num = node.tag
            if node.cons: out.append((path, 'cons'))
            elif cls == 0 and num == 1 and node.content == b'\xff': out.append((path, 'bool'))
            elif cls == 0 and num == 4: out.append((path, 'octs'))
            elif cls == 0 and num == 3: out.append((path, 'bits'))
        if node.cons:
            for i, k in enumerate(node.kids):
                sites_below(k, path + (i,), out, inside)
    for base_cls in (univ.Sequence, univ.Set):
        for mname, member, is_list in members:
            spec = record(base_cls, member)
            for g in inner_types:
                v = spec.clone(); v['id'] = g
                blob = der.encode(inner_value(g))
                if is_list:
                    v['blob'].extend([univ.Any(blob), univ.Any(blob)] if g != 1 else [univ.Any(blob)])
                else:
                    v['blob'] = member.clone(blob)
                e = I.run_encode('DER', v)
                if e[0] != 'ok':
                    ctx.stats['open-type grid: not encodable'] += 1; continue
                ok = I.run_decode('DER', e[1], asn1Spec=spec, decodeOpenTypes=True)
                if ok[0] != 'ok' or ok[2]:
                    ctx.stats['open-type grid: DER form not accepted'] += 1; continue
                root, _ = dertree.parse(e[1])
                # the member holding the open type is the child of the record that is not the INTEGER id
                sites = []
                for i, kid in enumerate(root.kids):
                    if kid.tag != (0, 2):
                        sites_below(kid, (i,), sites, True)
                for path, kind in sites:
                    data, what = rewrite(e[1], path, kind, ctx.rng)
                    for dc in ['DER'] + (['CER'] if kind == 'bool' else []):
                        d = I.run_decode(dc, data, asn1Spec=spec, decodeOpenTypes=True)
                        ctx.case(('open', dc, data, mname, base_cls.__name__), True)
                        ctx.stats['rewrite inside an open type value:%s' % kind] += 1
                        m = {'decoder': dc, 'record': '%s { id INTEGER, blob %s DEFINED BY id }' % (base_cls.__name__.upper(), mname), 'governing': g,
                             'der': e[1].hex(), 'rewritten': data.hex(), 'rewrite': what, 'path': list(path), 'decodeOpenTypes': True}
                        if d[0] == 'ok':
                            ctx.prop_fail('%s decoder accepts a non-canonical encoding inside an open type value (%s at depth %d)' % (dc, what, len(path)), m)
                        elif not I.is_library(d[1]):
                            ctx.prop_fail('%s decoder crashed with %s on a non-canonical encoding inside an open type value' % (dc, d[1]), m)


def run(ctx):
    ctx.rule = ('valid DER encodings of random values; every single non-canonical rewrite of one element (definite->indefinite length of a '
                'constructed element, primitive->segmented string of each string type, FF->other non-zero BOOLEAN) at every position and '
                'depth; decoded by DER (all three rewrites) and CER (BOOLEAN) with the guiding type and, for types without IMPLICIT tags, without; '
                'the same rewrites inside values of open types (bare / EXPLICIT ANY DEFINED BY, SET OF / SEQUENCE OF ANY) decoded with the open types resolved; non-trivial = rewrite below the top level')
    search_only = getattr(ctx, 'search_only', False)
    exprs, meta = [], []
    for implicit_ok in (True, False):
        g_cases = codec.gen_cases(ctx, ctx.n(40, 600), depth=3, implicit_ok=implicit_ok, any_ok=False, untagged_choice_ok=implicit_ok)
        if implicit_ok:
            g_cases = grid_cases(ctx) + g_cases
        for c in g_cases:
            e = I.run_encode('DER', c.obj)
            if e[0] != 'ok': continue
            ok = I.run_decode('DER', e[1], asn1Spec=c.spec)
            if ok[0] != 'ok' or ok[2]: continue
            try:
                root, _ = dertree.parse(e[1])
            except Exception:
                continue
            sites = []
            walk(c.T, c.v, root, (), sites)
            # half of the cases: the laxer decoders see each rewritten encoding first (the tag sets of a
            # case are its own, so this is the first time any decoder meets them)
            warm_first = ctx.rng.random() < 0.5
            for path, kind in sites:
                data, what = rewrite(e[1], path, kind, ctx.rng)
                decs = ['DER'] + (['CER'] if kind == 'bool' else [])
                for dc in decs:
                    for with_spec in ([True] if implicit_ok else [True, False]):
                        if warm_first:
                            I.warm(dc, data, **({'asn1Spec': c.spec} if with_spec else {}))
                            ctx.stats['history:laxer decoders first'] += 1
                        d = I.run_decode(dc, data, **({'asn1Spec': c.spec} if with_spec else {}))
                        ctx.case((dc, data, with_spec), len(path) > 0)
                        ctx.stats['rewrite:%s' % kind] += 1
                        ctx.stats['depth:%d' % len(path)] += 1
                        m = {'decoder': dc, 'T': c.T, 'v': c.v, 'der': e[1].hex(), 'rewritten': data.hex(), 'rewrite': what,
                             'path': list(path), 'with_spec': with_spec, 'warm_first': warm_first}
                        if d[0] == 'ok':
                            ctx.prop_fail('%s decoder accepts a non-canonical encoding (%s at depth %d, %s guiding type)' % (
                                dc, what, len(path), 'with' if with_spec else 'without'), m)
                        elif not I.is_library(d[1]):
                            ctx.prop_fail('%s decoder crashed with %s on a non-canonical encoding' % (dc, d[1]), m)
                        if with_spec and not search_only:
                            exprs.append('match decode %s (Some %s) %s with Err EUnmodelled => 2 | Err e => if is_library e then 0 else 1 | Ok _ => 1 end' % (
                                dc, c.cty, cbytes(data)))
                            meta.append(m)
    open_type_sites(ctx)
    if meta: ctx.sample(meta[0]); ctx.sample(meta[-1])
    if not search_only:
        codes = core.coq_codes('c15', 'Model.Dec Model.Obs', exprs)
        for i, cd in codes.items():
            if cd == 2: ctx.stats['model_declines'] += 1
            else: ctx.corr_fail('the model accepts (or crashes on) a rewrite the implementation rejects', meta[i])


def replay(data):
    m = data.get('case', data)
    print(m)
    c = codec.Case(m['T'], m['v'])
    for dc in ('DER', 'CER', 'BER'):
        for sp in (True, False):
            if m.get('warm_first') and dc != 'BER':
                I.warm(dc, bytes.fromhex(m['rewritten']), **({'asn1Spec': c.spec} if sp else {}))
            d = I.run_decode(dc, bytes.fromhex(m['rewritten']), **({'asn1Spec': c.spec} if sp else {}))
            print(dc, 'spec' if sp else 'nospec', 'ACCEPTED' if d[0] == 'ok' else d[1])
    return 0

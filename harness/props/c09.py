"""C09 - every valid BER form of a value decodes to that value."""
from harness import core, codec, universe as U, implrun as I, x690gen, gen
from harness.coqio import cbytes


def classify(T, v, data):
    return None


def run(ctx):
    ctx.rule = ('members of BER(T, v) drawn by an independent reference generator making every X.690 choice point at random (short/long/'
                'over-long lengths, definite/indefinite per constructed element, primitive or arbitrarily (also nested) segmented strings, any '
                'non-zero TRUE, SET order, DEFAULT present/absent), over random types, every presence pattern of three-member SEQUENCE/SET types, and fixed segmented BIT STRINGs with zero leading octets; each drawn encoding is first validated in Coq by the X.690 reference reader '
                '(Spec.X690.read), then decoded by the implementation and the model; non-trivial = differs from the DER encoding')
    search_only = getattr(ctx, 'search_only', False)
    cases = codec.gen_cases(ctx, ctx.n(120, 2500), depth=3)
    cases += codec.presence_grid_cases(ctx, every=3 if ctx.tier == 'quick' else 1)      # every OPTIONAL/DEFAULT pattern of a 3-member SEQUENCE / SET
    cases += codec.default_constructed_cases(ctx) + codec.tagged_choice_in_choice_cases(ctx)   # round 7: constructed DEFAULTs holding constructed members; tagged CHOICE inside an untagged CHOICE next to a sibling with the leaf tag
    cases += codec.tag_grid_cases(ctx, every=3 if ctx.tier == 'quick' else 1)
    exprs, meta, vexprs, vmeta = [], [], [], []
    # deterministic segmented BIT STRINGs: values with all-zero leading octets, cut after every octet, two and three
    # segments, definite and indefinite, also with an empty segment in front (each validated by the spec reader below)
    fixed = []
    def _seg(parts, pad, indef, outer=0x23):
        tl = [bytes([3, len(p) + 1, pad if i == len(parts) - 1 else 0]) + p for i, p in enumerate(parts)]
        body = b''.join(tl)
        return bytes([outer, 0x80]) + body + b'\x00\x00' if indef else bytes([outer, len(body)]) + body
    for body, pad in ((b'\x00\xa9', 0), (b'\x00\x00\xa9', 0), (b'\x00\x00', 0), (b'\x00\x00\x80', 7), (b'\x00\xa0', 4), (b'\x80\x00\x00', 3)):
        nbits = len(body) * 8 - pad
        bits = tuple(int(x) for x in ''.join('{:08b}'.format(o) for o in body)[:nbits])
        cb = codec.Case(('bits',), ('bits', bits))
        for cut in range(1, len(body)):
            for indef in (False, True):
                fixed.append((cb, _seg([body[:cut], body[cut:]], pad, indef)))
                fixed.append((cb, _seg([b'', body[:cut], body[cut:]], pad, indef)))
        if len(body) == 3:
            fixed.append((cb, _seg([body[:1], body[1:2], body[2:]], pad, True)))
    for c in cases + [None]:
        der = I.run_encode('DER', c.obj) if c is not None else None
        for k in range(3 if c is not None else len(fixed)):
            if c is None:
                cc, data = fixed[k]
            else:
                cc = c
            try:
                if c is not None:
                    data = x690gen.encode(ctx.rng, c.T, c.v)
            except Exception as e:
                ctx.stats['generator_declines:%s' % type(e).__name__] += 1
                continue
            ctx.case((cc.cty, cc.cval, data), der is None or der[0] != 'ok' or data != der[1])
            ctx.stats['indefinite' if b'\x80' in data else 'definite'] += 1
            m = {'T': cc.T, 'v': cc.v, 'bytes': data.hex()}
            d = I.run_decode('BER', data, asn1Spec=cc.spec)
            d_lit, dd = codec.dec_lit(cc.T, d)
            fail = None
            if d[0] != 'ok': fail = 'decoder raised %s' % d[1]
            elif d[2]: fail = 'non-empty remainder'
            elif not U.aval_eq(dd[1], cc.want): fail = 'different abstract value'
            # the generator itself is validated against the specification
            vexprs.append('match read %s %s with Some (a, []) => if aval_eqb a (abs %s %s) then 0 else 1 | _ => 1 end' % (cc.cty, cbytes(data), cc.cty, cc.cval))
            vmeta.append((m, fail))
            if not search_only:
                exprs.append(codec.dec_expr('BER', cc, data, d_lit)); meta.append(m)
    if vmeta: ctx.sample(vmeta[0][0]); ctx.sample(vmeta[-1][0])
    vcodes = core.coq_codes('c09v', 'Spec.X690', vexprs)
    for i, (m, fail) in enumerate(vmeta):
        if vcodes.get(i):
            ctx.stats['generator_output_rejected_by_spec'] += 1      # not a member of BER(T, v): not a case
            continue
        if fail:
            ctx.prop_fail('a valid BER encoding is not decoded to the value: ' + fail, m, finding=classify(m['T'], m['v'], m['bytes']))
    if not search_only:
        codes = core.coq_codes('c09', 'Model.Dec Model.Obs', exprs)
        for i, cd in codes.items():
            if cd == 2: ctx.stats['model_declines'] += 1
            else: ctx.corr_fail('model and implementation disagree on a reference-generated BER encoding', meta[i])


def replay(data):
    m = data.get('case', data)
    c = codec.Case(m['T'], m['v'])
    print(m)
    d = I.run_decode('BER', bytes.fromhex(m['bytes']), asn1Spec=c.spec)
    print('implementation:', d[:2] if d[0] != 'ok' else ('ok', U.absval_top(d[1], m['T']), d[2]))
    print('wanted        :', c.want)
    return 0

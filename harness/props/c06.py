"""C06 - truncated input is reported as insufficient data at every cut point."""
from harness import core, codec, universe as U, implrun as I, streams, gen
from harness.coqio import cbytes, cnat
from harness.props.c05 import gen_streams, grid_streams
from pyasn1 import error


def classify_prefix(cdc, data, k, spec):
    """how the implementation treats data[:k] in the three presentations"""
    out = {}
    d = I.run_decode(cdc, data[:k], **({'asn1Spec': spec} if spec is not None else {}))
    out['bytes'] = 'value' if d[0] == 'ok' else d[1]
    s = streams.Growing(); s.arrive(data[:k])
    ev, o = streams.drive(I.DEC[cdc], s, [('poll',), ('poll',)], spec=spec)
    out['open'] = ('objects' if any(not isinstance(e, str) for e in ev) else 'under') if o == 'exhausted' else (o if o == 'stop' else o[1])
    s = streams.Growing(); s.arrive(data[:k]); s.close_input()
    ev, o = streams.drive(I.DEC[cdc], s, [('poll',)], spec=spec)
    out['closed'] = ('objects:' if any(not isinstance(e, str) for e in ev) else '') + (o if isinstance(o, str) else o[1])
    # open while polled once or twice, THEN closed (seekable and non-seekable, i.e. behind the library's caching wrapper):
    # underrun while open, end-of-stream after the close
    for seekable in (True, False):
        for npoll in (1, 2):
            s = streams.Growing(seekable=seekable); s.arrive(data[:k])
            ev, o = streams.drive(I.DEC[cdc], s, [('poll',)] * npoll + [('close',), ('poll',), ('poll',)], spec=spec)
            key = 'polled-then-closed:%s:%d' % ('seekable' if seekable else 'non-seekable', npoll)
            if any(not isinstance(e, str) for e in ev): out[key] = 'objects'
            elif o == 'exhausted': out[key] = 'under-for-ever'
            else: out[key] = o if isinstance(o, str) else o[1]
    # the same two on a BytesIO-derived non-blocking stream (the library treats BytesIO objects specially)
    ev, o = streams.drive_feed(I.DEC[cdc], data[:k], [k], spec=spec, close=False, polls=(0,))
    out['open-bytesio'] = ('objects' if any(not isinstance(e, str) for e in ev) else 'under') if o == 'exhausted' else (o if o == 'stop' else o[1])
    ev, o = streams.drive_feed(I.DEC[cdc], data[:k], [k], spec=spec, close=True)
    out['closed-bytesio'] = ('objects:' if any(not isinstance(e, str) for e in ev) else '') + (o if isinstance(o, str) else o[1])
    return out


def run(ctx):
    ctx.rule = ('every proper prefix e[:k] of valid BER (definite/indefinite/chunked), CER and DER encodings, presented as bytes (one-shot), '
                'as an open non-blocking stream, as a stream closed after byte k and as one polled once or twice while open and closed afterwards (seekable and non-seekable), each both as a plain stream object and as an io.BytesIO subclass; with and without guiding type; besides random types, one encoding of every base kind (every simple, string, time and container type), plain and under an EXPLICIT tag, per codec, cut at every octet; non-trivial = k > 0')
    search_only = getattr(ctx, 'search_only', False)
    exprs, meta = [], []
    sts = [s for s in gen_streams(ctx, ctx.n(60, 600)) if len(s[2]) == 1]
    sts += grid_streams(ctx, every=2 if ctx.tier == 'quick' else 1)       # every kind x {plain, EXPLICIT} x codec, cut at every octet
    for cdc, T, cs, data in sts:
        c = cs[0]
        full = I.run_decode(cdc, data, asn1Spec=c.spec)
        if full[0] != 'ok' or full[2]:
            ctx.stats['skipped: the complete encoding does not decode'] += 1
            # never seen on an intact tree: e is not a valid encoding for this decoder, so its prefixes are not C06's cases
            ctx.prop_fail('the complete encoding (an encoder output) does not decode cleanly (%s): its prefixes cannot be classified' % (full[1] if full[0] != 'ok' else 'remainder'),
                          {'codec': cdc, 'T': T, 'data': data.hex()}, finding=codec.classify_roundtrip(T, c.v, cdc, True))
            continue
        ctx.stats['codec:' + cdc] += 1
        ks = list(range(len(data))) if len(data) <= 48 else sorted(set(ctx.rng.sample(range(len(data)), 48)))
        for k in ks:
            for with_spec in (True, False):
                if not with_spec and ctx.rng.random() < 0.6:
                    continue
                spec = c.spec if with_spec else None
                if not with_spec:
                    f0 = I.run_decode(cdc, data)
                    if f0[0] != 'ok' or f0[2]: continue
                r = classify_prefix(cdc, data, k, spec)
                ctx.case((cdc, data, k, with_spec), k > 0)
                m = {'codec': cdc, 'T': T, 'data': data.hex(), 'k': k, 'with_spec': with_spec, 'observed': r}
                if r['bytes'] not in ('EUnderrun', 'EEndOfStream'):
                    ctx.prop_fail('one-shot decoding of a proper prefix gives %s instead of the insufficient-data error' % r['bytes'], m)
                if r['open'] != 'under':
                    ctx.prop_fail('streaming decoder on an open stream holding a proper prefix: %s instead of underrun' % r['open'], m)
                if r['closed'] != 'EEndOfStream':
                    ctx.prop_fail('streaming decoder on a stream closed at the cut: %s instead of the end-of-stream error' % r['closed'], m)
                for key in [x for x in r if x.startswith('polled-then-closed')]:
                    if r[key] != 'EEndOfStream':
                        ctx.prop_fail('streaming decoder on a stream polled while open and then closed at the cut (%s): %s instead of the end-of-stream error' % (key.split(':', 1)[1], r[key]), m)
                        break
                if k > 0 and r['open-bytesio'] != 'under':
                    ctx.prop_fail('streaming decoder on an open BytesIO-derived stream holding a proper prefix: %s instead of underrun' % r['open-bytesio'], m)
                if k > 0 and r['closed-bytesio'] != 'EEndOfStream':
                    ctx.prop_fail('streaming decoder on a BytesIO-derived stream closed at the cut: %s instead of the end-of-stream error' % r['closed-bytesio'], m)
                if with_spec and not search_only:
                    fuel = 2 * len(data) + 40
                    exprs.append('match decode_with %s %s (Some %s) %s with Err EUnmodelled => 2 | Err e => if err_eqb e %s then 0 else 1 | Ok _ => 1 end' % (
                        cdc, cnat(fuel), c.cty, cbytes(data[:k]), r['bytes'] if r['bytes'] != 'value' else 'EUnmodelled'))
                    meta.append(m)
                    exprs.append('match resume (dec_item %s %s (Some %s)) (mkStream %s 0 false 0) with inl _ => 0 | inr (Err EUnmodelled, _) => 2 | inr _ => 1 end' % (
                        cdc, cnat(fuel), c.cty, cbytes(data[:k])))
                    meta.append(dict(m, presentation='open'))
    # one primitive payload of more than a megabyte (and of more than three), cut around every whole megabyte of the
    # payload and right before its end: the same three answers; a reader that fetches a big payload in slices must tell
    # "nothing yet" from "ended" in every slice, not only in the first
    from pyasn1.type import univ as _univ
    MiB = 1 << 20
    for nbytes in (MiB + 5, 3 * MiB + 5):
        for cdc in ('BER', 'DER'):
            spec = _univ.OctetString()
            data = I.run_encode(cdc, _univ.OctetString(bytes(range(256)) * (nbytes // 256) + b'\x07' * (nbytes % 256)))[1]
            hdr = len(data) - nbytes
            cuts = sorted({hdr + j * MiB + d for j in range(1, nbytes // MiB + 1) for d in (-1, 0, 1)} | {len(data) - 1, hdr + 17})
            for k in cuts:
                if not (0 < k < len(data)): continue
                r = classify_prefix(cdc, data, k, spec)
                ctx.case((cdc, 'big-octets', nbytes, k), True)
                ctx.stats['cuts inside a payload of more than a megabyte'] += 1
                m = {'codec': cdc, 'T': ('octs',), 'data': 'OCTET STRING of %d octets (%s), encoding of %d octets' % (nbytes, cdc, len(data)), 'k': k, 'observed': r}
                bad = [key for key, want in [('bytes', ('EUnderrun', 'EEndOfStream')), ('open', ('under',)), ('closed', ('EEndOfStream',)),
                                             ('open-bytesio', ('under',)), ('closed-bytesio', ('EEndOfStream',))] if r[key] not in want]
                bad += [key for key in r if key.startswith('polled-then-closed') and r[key] != 'EEndOfStream']
                if bad:
                    ctx.prop_fail('a payload of more than a megabyte cut at octet %d: %s' % (k, ', '.join('%s gives %s' % (b, r[b]) for b in bad)), m)
    if meta: ctx.sample(meta[0]); ctx.sample(meta[-1])
    if not search_only:
        codes = core.coq_codes('c06', 'Model.Dec Model.Obs', exprs)
        for i, cd in codes.items():
            if cd == 2: ctx.stats['model_declines'] += 1
            else: ctx.corr_fail('model and implementation disagree on a truncated input', meta[i])


def replay(data):
    m = data.get('case', data)
    print(m)
    return 0

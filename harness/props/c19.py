"""C19 - container objects refine their Python prototypes under any operation history.

Random operation histories over the public API of SequenceOf/SetOf (with and without componentType),
Sequence, Set and Choice.  After every step the real object is compared
  * with a plain Python list / dict / option prototype driven by the same operation (the property itself), and
  * with the Coq container model (coq/Model/Container.v) run on the same history (correspondence):
    outcome of the step and the complete concrete state (`_componentValues`, `_currentIdx`).
Plus the battery of arithmetic / conversion / comparison operations on valueless scalar objects."""
import json, math, operator
from harness import core, coqio
from harness import containers as C
from pyasn1.type import univ, char, useful
from pyasn1 import error

IMPORTS = 'Base.Bytes Model.Tag Model.Container Spec.ListSpec Proofs.ContainerSortKey'

# open findings this check can meet, decided by the class predicates in containers.py (finding_class)
FINDINGS = ('F18a', 'F18d', 'F18h', 'F18i')


# repaired defects (fixes/F18b,c,e,f,g.diff): minimal histories that must now satisfy the property
REGRESSIONS = [
    ('F18b', 'SequenceOf(Integer)', [('SExtend', [('PInt', 1), ('PInt', 2), ('PInt', 3)]), ('SReverse',), ('SIndex', 1)]),
    ('F18b', 'SequenceOf()', [('SAppend', ('PAsn', 1)), ('SAppend', ('PAsn', 2)), ('SReverse',)]),
    ('F18c', 'Choice3', [('RIter',)]),
    ('F18e', 'Choice3', [('RSetItem', ('KName', 1), ('PInt', 5)), ('RReset',), ('RLen',), ('RIsValue',)]),
    ('F18f', 'SequenceOf(Integer)', [('SClone', True)]),
    ('F18f', 'SetOf(Integer)', [('SClear',), ('SClone', True), ('SIsValue',)]),
    ('F18g', 'Choice3', [('RSetItem', ('KName', 1), ('PInt', 5)), ('RSetItem', ('KPos', -2), ('PInt', 6)), ('RGetName0',)]),
    ('F18g', 'Choice3', [('RSetItem', ('KPos', -1), ('PInt', 6)), ('RGetName0',), ('REncode',)]),
    # fixed histories that are not tied to a defect: keyed sorts over members that tie under the key
    ('stable-sort', 'SequenceOf(Integer)', [('SExtend', [('PInt', 11), ('PInt', 5), ('PInt', 21), ('PInt', 12), ('PInt', 41)]),
                                            ('SSortKey', 10, True), ('SIter',), ('SEncode',), ('SSortKey', 10, False), ('SIter',)]),
    ('stable-sort', 'SetOf(Integer)', [('SExtend', [('PInt', 3), ('PInt', 13), ('PInt', 2), ('PInt', 23)]), ('SSortKey', 10, True), ('SIter',)]),
    ('reads-inert-for-==', 'Seq4', [('RSetItem', ('KName', 0), ('PInt', 1)), ('RSetItem', ('KName', 3), ('PInt', 2)), ('RGetItem', ('KName', 1)),
                                    ('RIsValue',), ('RValues',), ('REncode',), ('RClone', True), ('RGetItem', ('KName', 1)), ('REncode',)]),
    ('reads-inert-for-==', 'Set4', [('RSetName', 0, ('PAsn', 3)), ('RGetName', 1, True), ('RSetType', 3, ('PInt', 4)), ('RGetItem', ('KPos', 1)), ('REncode',)]),
    ('refined-member-overwritten', 'SequenceOf(Integer)', [('SExtend', [('PInt', 1), ('PSub', 5), ('PInt', 3)]), ('SSetItem', 0, ('PInt', 100)),
                                                           ('SSetItem', 1, ('PInt', 100)), ('SEncode',), ('SSetItem', 1, ('PSub', 7)), ('SReverse',),
                                                           ('SAppend', ('PSub', 2)), ('SSetItem', -1, ('PInt', 1000)), ('SSetPos', 1, ('PInt', 4)), ('SEncode',)]),
    ('refined-member-overwritten', 'SetOf(Integer)', [('SAppend', ('PSub', 9)), ('SSetPos', 0, ('PInt', 8)), ('SSort', True), ('SSetItem', 0, ('PInt', -5)), ('SIter',)]),
    ('stable-sort', 'SequenceOf()', [('SAppend', ('PAsn', 4)), ('SAppend', ('PAsn', 2)), ('SAppend', ('PAsn', 6)), ('SSortKey', 2, True), ('SIter',)]),
]


def detuple(x):
    """JSON lists back to the operation tuples of containers.py"""
    if isinstance(x, list) and x and isinstance(x[0], str) and (x[0][:1] in 'SRPK' or x[0] == 'CVal'):
        return tuple(detuple(y) for y in x)
    if isinstance(x, list):
        return [detuple(y) for y in x]
    return x


def fixed_cases(ctx, kinds):
    """witnesses of the listed findings (must still be classified as such) and of the repaired defects (must pass)"""
    exprs, meta = [], []
    for fid, f in sorted(core.open_findings('C19').items()):
        w = f.get('witness') or {}
        if 'history' not in w or w.get('kind') not in kinds:
            continue
        kind, ops = kinds[w['kind']], [detuple(o) for o in w['history']]
        trace, failures, upto, _ = C.run_history(kind, ops)
        ctx.case(('witness', fid), True)
        ctx.stats['finding witnesses replayed'] += 1
        hit = [x for x in failures if x.finding == fid]
        for x in failures:
            ctx.prop_fail('%s: %s' % (kind.name, x.what), {'kind': kind.name, 'history': [op_json(o) for o in ops],
                                                         'detail': op_json(x.detail), 'witness_of': fid}, finding=x.finding)
        if not hit:
            ctx.notes.append('witness of %s no longer fails' % fid)
        exprs.append(kind.coq_check(ops[:upto], trace[:upto])); meta.append((kind, ops[:upto], trace[:upto]))
    for fid, kname, ops in REGRESSIONS:
        kind = kinds[kname]
        trace, failures, upto, _ = C.run_history(kind, ops)
        ctx.case(('regression', fid, kname, repr(ops)), True)
        ctx.stats['repaired-defect histories replayed'] += 1
        for x in failures:
            ctx.prop_fail('%s: %s (fixed history %s)' % (kind.name, x.what, fid),
                          {'kind': kind.name, 'history': [op_json(o) for o in ops], 'detail': op_json(x.detail),
                           'outcomes': [op_json(t[0]) for t in trace]}, finding=x.finding)
        exprs.append(kind.coq_check(ops[:upto], trace[:upto])); meta.append((kind, ops[:upto], trace[:upto]))
    return exprs, meta


def gen_history(kind, rng, length, wild):
    P = kind.proto_init()
    ops = []
    for _ in range(length):
        op = kind.gen_op(rng, P, wild)
        ops.append(op)
        v = kind.proto_step(P, op)
        if v[0] == 'wf':
            P = v[1]
        elif v[0] == 'undef' and not kind.is_reader(op):
            wild = True           # the prototype has lost track: keep generating around the last known shape
    return ops


def op_json(op):
    return json.loads(json.dumps(op, default=lambda b: b.hex() if isinstance(b, bytes) else repr(b)))


def scalar_battery(ctx):
    """every arithmetic / conversion / comparison entry point of a valueless scalar must raise PyAsn1Error"""
    types = [(univ.Integer, 1), (univ.Boolean, 1), (univ.Enumerated, 1), (univ.Real, 1.5), (univ.BitString, univ.BitString('101')),
             (univ.OctetString, b'a'), (univ.Null, b''), (univ.ObjectIdentifier, (1, 3)), (univ.Any, b'a'),
             (char.UTF8String, 'a'), (char.IA5String, 'a'), (char.PrintableString, 'a'), (char.BMPString, 'a'),
             (char.NumericString, '1'), (char.VisibleString, 'a'), (char.UniversalString, 'a'),
             (useful.GeneralizedTime, '20200101000000Z'), (useful.UTCTime, '200101000000Z'), (useful.ObjectDescriptor, 'a')]
    ops = {
        '__add__': lambda x, a: x + a, '__radd__': lambda x, a: a + x, '__sub__': lambda x, a: x - a, '__rsub__': lambda x, a: a - x,
        '__mul__': lambda x, a: x * a, '__rmul__': lambda x, a: a * x, '__truediv__': lambda x, a: x / a, '__rtruediv__': lambda x, a: a / x,
        '__floordiv__': lambda x, a: x // a, '__rfloordiv__': lambda x, a: a // x, '__mod__': lambda x, a: x % a,
        '__pow__': lambda x, a: x ** a, '__rpow__': lambda x, a: a ** x, '__lshift__': lambda x, a: x << a, '__rshift__': lambda x, a: x >> a,
        '__and__': lambda x, a: x & a, '__or__': lambda x, a: x | a, '__xor__': lambda x, a: x ^ a, '__rand__': lambda x, a: a & x,
        '__ror__': lambda x, a: a | x, '__rxor__': lambda x, a: a ^ x, '__divmod__': lambda x, a: divmod(x, a), '__rdivmod__': lambda x, a: divmod(a, x),
        '__neg__': lambda x, a: -x, '__pos__': lambda x, a: +x, '__abs__': lambda x, a: abs(x), '__invert__': lambda x, a: ~x,
        '__int__': lambda x, a: int(x), '__float__': lambda x, a: float(x), '__str__': lambda x, a: str(x), '__bytes__': lambda x, a: bytes(x),
        '__bool__': lambda x, a: bool(x), '__len__': lambda x, a: len(x), '__hash__': lambda x, a: hash(x), '__index__': lambda x, a: operator.index(x),
        '__round__': lambda x, a: round(x), '__trunc__': lambda x, a: math.trunc(x), '__floor__': lambda x, a: math.floor(x), '__ceil__': lambda x, a: math.ceil(x),
        '__iter__': lambda x, a: list(iter(x)), '__getitem__': lambda x, a: x[0], '__contains__': lambda x, a: a in x, '__reversed__': lambda x, a: list(reversed(x)),
        '__eq__': lambda x, a: x == a, '__ne__': lambda x, a: x != a, '__lt__': lambda x, a: x < a, '__le__': lambda x, a: x <= a,
        '__gt__': lambda x, a: x > a, '__ge__': lambda x, a: x >= a,
        'prettyPrint': lambda x, a: x.prettyPrint(), 'asOctets': lambda x, a: x.asOctets(), 'asNumbers': lambda x, a: x.asNumbers(),
        'asBinary': lambda x, a: x.asBinary(), 'asInteger': lambda x, a: x.asInteger(), 'asDateTime': lambda x, a: x.asDateTime,
    }
    returned, foreign, sentinel = [], [], []
    for T, arg in types:
        x = T()
        vx = T('') if T is univ.Null else T(arg)
        for name, f in sorted(ops.items()):
            try:
                f(vx, arg)
            except Exception:
                continue                      # not an operation of this type at all
            ctx.case(('scalar', T.__name__, name), True)
            ctx.stats['scalar battery calls'] += 1
            try:
                r = f(x, arg)
            except error.PyAsn1Error:
                continue
            except Exception as e:  # noqa
                foreign.append('%s.%s -> %s' % (T.__name__, name, type(e).__name__))
                continue
            if r is univ.noValue:
                sentinel.append('%s.%s' % (T.__name__, name))
            else:
                returned.append('%s.%s -> %r' % (T.__name__, name, r))
    for item in returned:
        ctx.prop_fail('operation on a valueless scalar returned data: ' + item.split(' -> ')[0].split('.')[1], {'call': item})
    for item in foreign:
        ctx.prop_fail('operation on a valueless scalar failed with a foreign exception: ' + item.split(' -> ')[0].split('.')[1], {'call': item})
    if sentinel:
        ctx.notes.append('valueless scalar: these conversions hand back the noValue sentinel instead of raising '
                         '(any use of the sentinel raises PyAsn1Error): ' + ', '.join(sentinel))
    # correspondence with the model's scalar: valueless -> the library's error, never a number
    ex = ['match scalar_unop None Z.opp with Err EMalformed => true | _ => false end',
          'match scalar_binop None (Some (5)%Z) Z.add, scalar_binop (Some (5)%Z) None Z.add with Err EMalformed, Err EMalformed => true | _, _ => false end',
          'match scalar_cmp None (Some (1)%Z) Z.eqb with Err EMalformed => true | _ => false end']
    for i in core.coq_bools('c19s', IMPORTS, ex):
        ctx.corr_fail('scalar model does not raise on a valueless operand', {'expr': ex[i]})


def componentless_battery(ctx):
    """SEQUENCE / SET objects created without declared components hand out the names field-0, field-1, .. for the
    positions they hold.  Name-addressed operations are a dict over exactly those names: any other spelling (leading
    zeros, signs, blanks, other digits, other case, a number past the end) is unknown - `in` says no, reads and writes
    refuse, and nothing changes."""
    from pyasn1.codec.der import encoder as _der
    from pyasn1 import error as _error
    aliases = lambda n: ['field-0%d' % n, 'field-+%d' % n, 'field- %d' % n, 'field-%d ' % n, ' field-%d' % n, 'field-%d.0' % n,
                         'Field-%d' % n, 'field_%d' % n, 'field-%s' % ''.join(chr(0x660 + int(c)) for c in str(n)), 'field--%d' % n, 'field-%d_0' % n]
    for cls in (univ.Sequence, univ.Set):
        for count in (1, 2, 3, 11):
            o = cls()
            for i in range(count):
                o.setComponentByPosition(i, univ.Integer(10 + i))
            before = bytes(_der.encode(o))
            names = [o.componentType.getNameByPosition(i) if o.componentType else 'field-%d' % i for i in range(count)]
            ctx.stats['component-less records'] += 1
            for i, nm in enumerate(names):
                ctx.case(('componentless', cls.__name__, count, nm), True)
                try:
                    ok = (nm in o) and int(o[nm]) == 10 + i and int(o.getComponentByName(nm)) == 10 + i
                except Exception as e:
                    ok = False
                if not ok:
                    ctx.prop_fail('%s without declared components: the name it handed out does not address its member' % cls.__name__, {'name': nm, 'members': count})
            for n in list(range(count)) + [count, count + 5]:
                for nm in aliases(n) + (['field-%d' % n] if n >= count else []):
                    ctx.case(('componentless', cls.__name__, count, nm), True)
                    ctx.stats['component-less name probes'] += 1
                    got = []
                    try:
                        if nm in o: got.append('in')
                    except _error.PyAsn1Error: pass
                    except KeyError: pass
                    for what, f in (('getitem', lambda: o[nm]), ('getComponentByName', lambda: o.getComponentByName(nm)),
                                    ('getComponentByName(instantiate=False)', lambda: o.getComponentByName(nm, instantiate=False)),
                                    ('setitem', lambda: o.__setitem__(nm, univ.Integer(99))), ('setComponentByName', lambda: o.setComponentByName(nm, univ.Integer(98)))):
                        try:
                            f(); got.append(what)
                        except (_error.PyAsn1Error, KeyError, IndexError):
                            pass
                        except Exception as e:
                            got.append('%s raised %s' % (what, type(e).__name__))
                    after = bytes(_der.encode(o))
                    if got or after != before:
                        ctx.prop_fail('%s without declared components: a name it never handed out is accepted' % cls.__name__,
                                      {'name': nm, 'members': count, 'accepted_by': got, 'der_before': before.hex(), 'der_after': after.hex()})
                        o = cls()
                        for i in range(count):
                            o.setComponentByPosition(i, univ.Integer(10 + i))


def run(ctx):
    kinds = C.standard_kinds()
    quick = ctx.tier != 'thorough'
    per_kind = ctx.n(40, 200)
    maxlen = 40 if quick else 400
    ctx.rule = ('random operation histories (length 5..%d; every 4th history "wild": arguments also from the classes of the '
                'recorded findings F18a/d/i; sorts with key=int(x)%%m and reverse over members that tie under the key; members handed in as value objects of the refined type INTEGER (0..9), later overwritten by bare values) over SequenceOf(Integer), SetOf(Integer), SequenceOf(), a 4-component Sequence '
                'and Set (Req/Opt/Default, distinct tags) and a 3-alternative Choice; after every step: outcome and concrete state '
                'vs the Coq model, outcome/content/len/isValue vs a plain list/dict/option prototype; non-trivial = history with '
                '>= 3 successful mutators' % maxlen)
    exprs, meta = fixed_cases(ctx, {k.name: k for k in kinds})
    sexprs, smeta = [], []
    reported = set()
    for kind in kinds:
        for h in range(per_kind):
            wild = h % 4 == 3
            length = ctx.rng.randrange(5, maxlen + 1) if (quick or h % 3) else ctx.rng.randrange(5, 41)
            ops = gen_history(kind, ctx.rng, length, wild)
            trace, failures, upto, ptrace = C.run_history(kind, ops)
            sexprs.append(kind.coq_spec_check(ops[:len(ptrace)], ptrace)); smeta.append((kind, ops, ptrace))
            ctx.stats['steps the prototype predicts (well-formed)'] += sum(1 for e in ptrace if e is not None)
            ctx.stats['steps in the leading all-well-formed prefix'] += next((i for i, e in enumerate(ptrace) if e is None), len(ptrace))
            nmut = sum(1 for op, (out, _) in zip(ops, trace) if not kind.is_reader(op) and out == C.RET)
            ctx.case((kind.name, tuple(map(repr, ops))), nmut >= 3)
            ctx.stats['histories ' + kind.name] += 1
            ctx.stats['steps'] += len(ops)
            ctx.stats['steps raising'] += sum(1 for out, _ in trace if out[0] == 'ORaise')
            ctx.stats['wild histories' if wild else 'clean histories'] += 1
            if h == 1:
                ctx.sample({'kind': kind.name, 'ops': [op_json(o) for o in ops[:6]], 'outcomes': [op_json(t[0]) for t in trace[:6]]})
            for f in failures:
                key = (kind.name, f.what, f.finding)
                if key in reported:
                    ctx.stats['property failures (repeats)'] += 1
                    continue
                reported.add(key)
                small = C.shrink_history(kind, ops, f)
                ctx.prop_fail('%s: %s' % (kind.name, f.what),
                              {'kind': kind.name, 'history': [op_json(o) for o in small], 'detail': op_json(f.detail),
                               'found_in_history_of_length': len(ops), 'step': f.step}, finding=f.finding)
            if upto < len(ops):
                ctx.stats['histories cut where the state leaves the modelled domain'] += 1
                ops, trace = ops[:upto], trace[:upto]
            exprs.append(kind.coq_check(ops, trace))
            meta.append((kind, ops, trace))
    ctx.stats['max history length'] = max(len(m[1]) for m in meta)
    bad = core.coq_bools('c19', IMPORTS, exprs, shard=40)
    for i in bad[:8]:
        kind, ops, trace = meta[i]
        where = core.coq_show(IMPORTS, kind.coq_first_bad(ops, trace))
        ctx.corr_fail('%s: model and implementation disagree on a step' % kind.name,
                      {'kind': kind.name, 'history': [op_json(o) for o in ops], 'first_bad': where[-200:],
                       'implementation_trace': [op_json(t) for t in trace]})
    for i in bad[8:]:
        ctx.corr_fail('%s: model and implementation disagree on a step' % meta[i][0].name, {'history': [op_json(o) for o in meta[i][1]]})
    # the Python prototype the implementation was compared with is the Coq specification (on well-formed prefixes)
    for i in core.coq_bools('c19p', IMPORTS, sexprs, shard=40):
        kind, ops, ptrace = smeta[i]
        ctx.corr_fail('%s: the Python prototype and Spec/ListSpec.v disagree on a well-formed step' % kind.name,
                      {'kind': kind.name, 'history': [op_json(o) for o in ops], 'prototype_trace': [op_json(e) for e in ptrace]})
    scalar_battery(ctx)
    componentless_battery(ctx)


def replay(data):
    case = data.get('case', {})
    kinds = {k.name: k for k in C.standard_kinds()}
    if 'history' not in case:
        print(json.dumps(data, indent=1)[:3000])
        return 0
    kind = kinds[case['kind']]

    ops = [detuple(o) for o in case['history']]
    trace, failures, upto, _ = C.run_history(kind, ops)
    print('kind', kind.name)
    for op, (out, snap) in zip(ops, trace):
        print('  ', op, '->', out, ' state', snap)
    for f in failures:
        print('property failure at step %d: %s (class %s) %s' % (f.step, f.what, f.finding, f.detail))
    print('model:', core.coq_show(IMPORTS, kind.coq_run(ops[:upto])))
    return 1 if failures else 0

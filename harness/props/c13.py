"""C13 - tags on the wire are exactly the type's tags (pilot stage: identifier and length octets)."""
from harness import core, coqio
from pyasn1.type import univ, tag
from pyasn1.codec.ber import encoder as ber_enc, decoder as ber_dec
from pyasn1 import error

NUMS = [0, 1, 2, 5, 30, 31, 32, 127, 128, 129, 255, 256, 16383, 16384, 2 ** 21 - 1, 2 ** 21, 2 ** 32, 2 ** 64 + 5]
CLASSES = [64, 128, 192]
LENS = [0, 1, 2, 126, 127, 128, 129, 255, 256, 257, 65535, 65536, 70000]


def run(ctx):
    ctx.rule = ('identifier octets: NULL under one IMPLICIT tag over every class x number grid point plus random numbers; '
                'length octets: OCTET STRING of boundary lengths; non-trivial = long-form identifier or long-form length')
    exprs, meta = [], []
    nums = list(NUMS) + [ctx.rng.randrange(0, 2 ** ctx.rng.choice([5, 8, 14, 21, 40, 70])) for _ in range(ctx.n(60, 2000))]
    for cls in CLASSES:
        for num in nums:
            for fmt in (0, 32):
                t = tag.Tag(cls, fmt, num)
                T = univ.Null().subtype(implicitTag=t)
                b = ber_enc.encode(T.clone(''))
                ctx.case(('id', cls, num, fmt), num >= 31)
                # property on the implementation: the type accepts its own encoding, a neighbour rejects it
                v, rest = ber_dec.decode(b, asn1Spec=T)
                if rest or v != T.clone(''):
                    ctx.prop_fail('own encoding not accepted', {'cls': cls, 'num': num, 'bytes': b.hex()})
                T2 = univ.Null().subtype(implicitTag=tag.Tag(cls, fmt, num + 1))
                try:
                    ber_dec.decode(b, asn1Spec=T2)
                    ctx.prop_fail('encoding accepted by a type whose tag number differs', {'cls': cls, 'num': num, 'bytes': b.hex()})
                except error.PyAsn1Error:
                    pass
                # NULL is primitive: implicit tagging keeps the primitive form whatever format was asked for
                exprs.append('bytes_eqb %s (enc_tag %s false ++ [0])' % (coqio.cbytes(b), coqio.ctag(cls, False, num)))
                meta.append({'kind': 'ident', 'cls': cls, 'num': num, 'fmt': fmt, 'bytes': b.hex()})
    for n in LENS + [ctx.rng.randrange(0, 3000) for _ in range(ctx.n(10, 100))]:
        b = ber_enc.encode(univ.OctetString(b'\x55' * n))
        ctx.case(('len', n), n >= 128)
        hdr = b[:len(b) - n]
        exprs.append('match enc_len %d false with Ok l => bytes_eqb %s ([4] ++ l) | Err _ => false end' % (n, coqio.cbytes(hdr)))
        meta.append({'kind': 'len', 'n': n, 'header': hdr.hex()})
    ctx.sample(meta[5]); ctx.sample(meta[-1])
    for i in core.coq_bools('c13', 'Base.Bytes Model.Tag', exprs):
        ctx.corr_fail('model and implementation disagree on %s octets' % meta[i]['kind'], meta[i])


def replay(data):
    print(data)
    return 0

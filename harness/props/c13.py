"""C13 - tags on the wire are exactly the type's tags (pilot stage: identifier and length octets)."""
from harness import core, coqio
from pyasn1.type import univ, tag
from pyasn1.codec.ber import encoder as ber_enc, decoder as ber_dec
from pyasn1 import error

NUMS = [0, 1, 2, 5, 30, 31, 32, 127, 128, 129, 255, 256, 16383, 16384, 2 ** 21 - 1, 2 ** 21, 2 ** 32, 2 ** 64 + 5]
CLASSES = [64, 128, 192]
LENS = [0, 1, 2, 126, 127, 128, 129, 255, 256, 257, 65535, 65536, 70000]


def run(ctx):
    ctx.rule = ('identifier octets: NULL under one IMPLICIT tag over every class x number grid point plus random numbers; '
                'length octets: OCTET STRING of boundary lengths; non-trivial = long-form identifier or long-form length')
    exprs, meta = [], []
    nums = list(NUMS) + [ctx.rng.randrange(0, 2 ** ctx.rng.choice([5, 8, 14, 21, 40, 70])) for _ in range(ctx.n(60, 2000))]
    for cls in CLASSES:
        for num in nums:
            for fmt in (0, 32):
                t = tag.Tag(cls, fmt, num)
                T = univ.Null().subtype(implicitTag=t)
                b = ber_enc.encode(T.clone(''))
                ctx.case(('id', cls, num, fmt), num >= 31)
                # property on the implementation: the type accepts its own encoding, a neighbour rejects it
                v, rest = ber_dec.decode(b, asn1Spec=T)
                if rest or v != T.clone(''):
                    ctx.prop_fail('own encoding not accepted', {'cls': cls, 'num': num, 'bytes': b.hex()})
                T2 = univ.Null().subtype(implicitTag=tag.Tag(cls, fmt, num + 1))
                try:
                    ber_dec.decode(b, asn1Spec=T2)
                    ctx.prop_fail('encoding accepted by a type whose tag number differs', {'cls': cls, 'num': num, 'bytes': b.hex()})
                except error.PyAsn1Error:
                    pass
                # NULL is primitive: implicit tagging keeps the primitive form whatever format was asked for
                exprs.append('bytes_eqb %s (enc_tag %s false ++ [0])' % (coqio.cbytes(b), coqio.ctag(cls, False, num)))
                meta.append({'kind': 'ident', 'cls': cls, 'num': num, 'fmt': fmt, 'bytes': b.hex()})
    for n in LENS + [ctx.rng.randrange(0, 3000) for _ in range(ctx.n(10, 100))]:
        b = ber_enc.encode(univ.OctetString(b'\x55' * n))
        ctx.case(('len', n), n >= 128)
        hdr = b[:len(b) - n]
        exprs.append('match enc_len %d false with Ok l => bytes_eqb %s ([4] ++ l) | Err _ => false end' % (n, coqio.cbytes(hdr)))
        meta.append({'kind': 'len', 'n': n, 'header': hdr.hex()})
    ctx.sample(meta[5]); ctx.sample(meta[-1])
    for i in core.coq_bools('c13', 'Base.Bytes Model.Tag', exprs):
        ctx.corr_fail('model and implementation disagree on %s octets' % meta[i]['kind'], meta[i])
    run_stacks(ctx)
    run_algebra(ctx)


def tag_stack_cases(ctx, n):
    """base types under tag stacks of depth 0..4 over class x number x {implicit, explicit}"""
    from harness import gen as G, codec, universe as U
    r = ctx.rng
    bases = [('bool',), ('int',), ('enum',), ('bits',), ('octs',), ('null',), ('oid',), ('real',), ('str', 'UTF8String'),
             ('str', 'IA5String'), ('seq', [('req', ('int',))]), ('seqof', ('null',)), ('set', []), ('setof', ('bool',))]
    out = []
    for _ in range(n):
        T = r.choice(bases)
        for _ in range(r.randint(0, 4)):
            t = (r.choice(CLASSES), 0, r.choice(NUMS))
            T = (r.choice(['imp', 'exp']), t, T)
        g = G.Gen(r, depth=1)
        try:
            out.append(codec.Case(T, g.val(T)))
        except Exception:
            pass
    return out


def perturb(T, rng):
    """the same type with the class or the number changed at one tag position"""
    path = []
    X = T
    while X[0] in ('imp', 'exp'):
        path.append(X); X = X[2]
    if not path:
        return None
    i = rng.randrange(len(path))
    def rebuild(k, X):
        if k == len(path): return X
        kind, t, _ = path[k]
        if k == i:
            if rng.random() < 0.5:
                t = (rng.choice([c for c in CLASSES if c != t[0]]), t[1], t[2])
            else:
                t = (t[0], t[1], t[2] + rng.choice([1, 2, 31]))
        return (kind, t, rebuild(k + 1, X))
    return rebuild(0, X)


DELTAS = [1, 31, 128, 2 ** 31 - 1, 2 ** 32, 2 ** 61 - 1, 2 * (2 ** 61 - 1), 2 ** 63, 2 ** 64]


def perturb_all(T):
    """every type that differs from T at exactly one tag position: each other class, and the number moved by each of
    DELTAS (small steps, octet and word sizes, and the moduli Python's own hashing of integers works with - two numbers
    that collide under hash() are still different tags)"""
    path = []
    X = T
    while X[0] in ('imp', 'exp'):
        path.append(X); X = X[2]
    out = []
    for i in range(len(path)):
        kind, t, _ = path[i]
        variants = [(c, t[1], t[2]) for c in CLASSES if c != t[0]] + [(t[0], t[1], t[2] + d) for d in DELTAS]
        for t2 in variants:
            Y = X
            for k in range(len(path) - 1, -1, -1):
                Y = (path[k][0], t2 if k == i else path[k][1], Y)
            out.append(Y)
    return out


def py_tagset(T):
    """the type's tags innermost first as (class, number), following tag.py"""
    if T[0] == 'imp':
        ts = py_tagset(T[2])
        return ts[:-1] + [(T[1][0], T[1][2])] if ts else [(T[1][0], T[1][2])]
    if T[0] == 'exp':
        return py_tagset(T[2]) + [(T[1][0], T[1][2])]
    from harness.gen import outer_tags
    o = outer_tags(T)
    return [sorted(o)[0]] if o and T[0] not in ('choice', 'any') else []


def run_stacks(ctx):
    from harness import codec, universe as U, implrun as I
    from harness.gen import base_desc
    exprs, meta = [], []
    for c in tag_stack_cases(ctx, ctx.n(150, 3000)):
        e = I.run_encode('BER', c.obj)
        if e[0] != 'ok':
            continue
        depth = 0
        X = c.T
        while X[0] in ('imp', 'exp'):
            depth += 1; X = X[2]
        ctx.case(('stack', c.cty, c.cval), depth >= 2)
        ctx.stats['stack_depth:%d' % depth] += 1
        m = {'kind': 'stack', 'T': c.T, 'v': c.v, 'bytes': e[1].hex()}
        d = I.run_decode('BER', e[1], asn1Spec=c.spec)
        if d[0] != 'ok' or d[2] or not U.aval_eq(U.absval_top(d[1], c.T), c.want):
            ctx.prop_fail('the type does not accept its own encoding', m)
        # string types: the same value given as a plain Python value with the type as guide, in segmented form - the
        # outer identifiers are the type's tags, the segments carry the universal OCTET STRING tag, the type accepts it
        if base_desc(c.T)[0] in ('octs', 'str'):
            from pyasn1.codec.native import encoder as _ne
            try:
                py = _ne.encode(c.obj)
            except Exception:
                py = None
            if py is not None and len(bytes(c.obj.asOctets())) >= 2:
                for kw in (dict(maxChunkSize=1), dict(defMode=False, maxChunkSize=1)):
                    eo = I.run_encode('BER', c.obj, **kw)
                    ep = I.run_encode('BER', py, asn1Spec=c.spec, **kw)
                    ctx.case(('stack-bare-segmented', str(kw), c.cty, c.cval), True)
                    ctx.stats['segmented encodings of a Python value under a tag stack'] += 1
                    mm = dict(m, options=kw, bytes=ep[1].hex() if ep[0] == 'ok' else ep[1], value_object_bytes=eo[1].hex() if eo[0] == 'ok' else eo[1])
                    if eo[0] == 'ok' and ep[:2] != eo[:2]:
                        ctx.prop_fail('identifier octets of the segmented encoding of a Python value (guided by the type) differ from those of the value object', mm)
                    elif ep[0] == 'ok':
                        dp = I.run_decode('BER', ep[1], asn1Spec=c.spec)
                        if dp[0] != 'ok' or dp[2] or not U.aval_eq(U.absval_top(dp[1], c.T), c.want):
                            ctx.prop_fail('the type does not accept the segmented encoding of a Python value it guided', mm)
        # every single-position near miss (class or number) must be refused by the implementation
        for T3 in perturb_all(c.T):
            if py_tagset(T3) == py_tagset(c.T): continue
            try:
                spec3 = U.build_type(T3)
            except Exception:
                continue
            ctx.stats['near-miss types (systematic)'] += 1
            d3 = I.run_decode('BER', e[1], asn1Spec=spec3)
            if d3[0] == 'ok':
                ctx.prop_fail('encoding accepted by a type whose tags differ at one level', dict(m, other=T3))
            elif not I.is_library(d3[1]):
                ctx.prop_fail('near-miss type made the decoder crash: %s' % d3[1], dict(m, other=T3))
        T2 = perturb(c.T, ctx.rng)
        if T2 is not None and py_tagset(T2) != py_tagset(c.T):
            try:
                spec2 = U.build_type(T2)
            except Exception:
                spec2 = None
            if spec2 is not None:
                d2 = I.run_decode('BER', e[1], asn1Spec=spec2)
                if d2[0] == 'ok':
                    ctx.prop_fail('encoding accepted by a type whose tags differ at one level', dict(m, other=T2))
                elif not I.is_library(d2[1]):
                    ctx.prop_fail('near-miss type made the decoder crash: %s' % d2[1], dict(m, other=T2))
                exprs.append('match decode BER (Some %s) %s with Ok _ => 1 | Err EUnmodelled => 2 | Err _ => 0 end' % (U.coq_ty(T2), coqio.cbytes(e[1])))
                meta.append(dict(m, other=T2, what='near-miss'))
        # the wire tags: model of the type's tag set against the headers actually emitted
        exprs.append('match tagset_of %s with Ok ts => if list_eqb (fun a b => tag_eqb a b && Bool.eqb (tcon a) (tcon b)) '
                     '(spine (length ts) %s) (map (wire_tag %s) (rev ts)) then 0 else 1 | Err _ => 1 end' % (
                         c.cty, coqio.cbytes(e[1]), 'true' if base_desc(c.T)[0] in ('seq', 'set', 'seqof', 'setof') else 'false'))
        meta.append(dict(m, what='spine'))
    codes = core.coq_codes('c13s', 'Model.Enc Model.Dec Model.Obs Proofs.Spine', exprs)
    for i, cd in codes.items():
        if cd == 2: ctx.stats['model_declines'] += 1
        elif meta[i]['what'] == 'spine':
            ctx.prop_fail('identifier octets on the wire are not the type\'s tags outermost to innermost', meta[i])
        else:
            ctx.corr_fail('model accepts a near-miss type the implementation rejects', meta[i])


def run_algebra(ctx):
    """The tag algebra itself, against the model's tag_explicitly / tag_implicitly (about which C13_explicit and
    C13_implicit are proved): every base type's tag set and tag sets of depth 2..3, tagged with every class (UNIVERSAL
    included) x number x format, through TagSet.tagExplicitly / tagImplicitly and through subtype() of a value object."""
    from pyasn1.type import char, useful
    protos = [univ.Boolean(), univ.Integer(), univ.BitString(), univ.OctetString(), univ.Null(), univ.ObjectIdentifier(), univ.Real(),
              univ.Enumerated(), char.UTF8String(), useful.GeneralizedTime(), univ.Sequence(), univ.SequenceOf(), univ.Set(), univ.SetOf(),
              univ.Integer().subtype(explicitTag=tag.Tag(128, 32, 3)), univ.Sequence().subtype(implicitTag=tag.Tag(64, 0, 40)),
              univ.OctetString().subtype(implicitTag=tag.Tag(192, 0, 1)).subtype(explicitTag=tag.Tag(128, 0, 2 ** 20))]
    def lit(ts):
        return coqio.clist([coqio.ctag(t.tagClass, t.tagFormat == 32, t.tagId) for t in ts.superTags])
    exprs, meta = [], []
    nums = [0, 16, 17, 30, 31, 128, 2 ** 32]
    for pi, proto in enumerate(protos):
        for cls in [0] + CLASSES:
            for num in nums:
                for fmt in (0, 32):
                    if (pi + num + cls // 64 + fmt // 32 + ctx.seed) % (3 if ctx.tier == 'quick' else 1) and cls != 0:
                        continue
                    t = tag.Tag(cls, fmt, num)
                    ctx.case(('algebra', type(proto).__name__, len(proto.tagSet), cls, num, fmt), cls == 0 or fmt == 32)
                    m = {'kind': 'algebra', 'type': type(proto).__name__, 'tags': repr(proto.tagSet), 'tag': [cls, fmt, num]}
                    outs = []
                    for how, f in (('tagExplicitly', lambda: proto.tagSet.tagExplicitly(t)), ('subtype(explicitTag)', lambda: proto.subtype(explicitTag=t).tagSet)):
                        try:
                            r = f()
                        except error.PyAsn1Error:
                            r = None
                        outs.append(r)
                        ctx.stats['explicit:%s' % ('refused' if r is None else 'applied')] += 1
                        if cls == 0 and r is not None:
                            ctx.prop_fail('%s accepts a tag of the UNIVERSAL class' % how, m)
                        if cls != 0:
                            want = list(proto.tagSet.superTags) + [tag.Tag(cls, 32, num)]
                            if r is None or [(x.tagClass, x.tagFormat, x.tagId) for x in r.superTags] != [(x.tagClass, x.tagFormat, x.tagId) for x in want]:
                                ctx.prop_fail('%s does not add exactly one constructed tag' % how, m)
                    exprs.append('match tag_explicitly %s %s with Ok ts => %s | Err _ => %s end' % (
                        lit(proto.tagSet), coqio.ctag(cls, fmt == 32, num),
                        'false' if outs[0] is None else 'list_eqb (fun a b => tag_eqb a b && Bool.eqb (tcon a) (tcon b)) ts %s' % lit(outs[0]),
                        'true' if outs[0] is None else 'false'))
                    meta.append(dict(m, op='explicit'))
                    if cls != 0:
                        for how, f in (('tagImplicitly', lambda: proto.tagSet.tagImplicitly(t)), ('subtype(implicitTag)', lambda: proto.subtype(implicitTag=t).tagSet)):
                            r = f()
                            old = list(proto.tagSet.superTags)
                            want = old[:-1] + [tag.Tag(cls, old[-1].tagFormat, num)]
                            if [(x.tagClass, x.tagFormat, x.tagId) for x in r.superTags] != [(x.tagClass, x.tagFormat, x.tagId) for x in want]:
                                ctx.prop_fail('%s does not replace just the outermost tag keeping its form' % how, m)
                        exprs.append('list_eqb (fun a b => tag_eqb a b && Bool.eqb (tcon a) (tcon b)) (tag_implicitly %s %s) %s' % (
                            lit(proto.tagSet), coqio.ctag(cls, fmt == 32, num), lit(r)))
                        meta.append(dict(m, op='implicit'))
    for i in core.coq_bools('c13a', 'Base.Bytes Model.Tag', exprs):
        ctx.corr_fail('model and implementation disagree on the tag algebra (%s tagging)' % meta[i]['op'], meta[i])


def replay(data):
    print(data)
    return 0

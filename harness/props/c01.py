"""C01 - BER encode/decode round trip under every encoder mode."""
from harness import core, codec, universe as U, implrun as I, shrink, gen

CHUNKS = [1, 2, 3, 7, 1000]


def modes(rng):
    return [(True, 0), (False, 0), (True, rng.choice(CHUNKS)), (False, rng.choice(CHUNKS))]


def roundtrip(T, v, defm, chunk):
    """None if the property holds on the implementation for this input, else what failed"""
    c = codec.Case(T, v)
    e = I.run_encode('BER', c.obj, defMode=defm, maxChunkSize=chunk)
    if e[0] != 'ok':
        return 'encoder raised %s' % e[1]
    d = I.run_decode('BER', e[1], asn1Spec=c.spec)
    if d[0] != 'ok':
        return 'decoder raised %s' % d[1]
    if d[2]:
        return 'non-empty remainder'
    if not U.aval_eq(U.absval_top(d[1], T), c.want):
        return 'different abstract value'
    return None


def run(ctx):
    ctx.rule = ('random (type, value) from the universe (depth<=3, tag stacks over 3 classes x numbers up to 2^32, boundary '
                'integers, bit strings of every length mod 8, multi-octet OID arcs, binary reals, every optionality subset) x '
                '{definite, indefinite} x chunk in {0,1,2,3,7,1000}; plus systematic leaf boundaries (INTEGER two\'s-complement edges per octet count, REAL mantissa x exponent edges, OID arc digit boundaries, BIT STRING lengths 0..17, length-octet boundaries), plain and tagged; non-trivial = constructed or tagged type; distinct by (type, value, mode)')
    cases = codec.gen_cases(ctx, ctx.n(120, 2500), depth=3)
    cases += codec.leaf_boundary_cases(ctx, every=3 if ctx.tier == 'quick' else 1)
    cases += codec.presence_grid_cases(ctx, every=2 if ctx.tier == 'quick' else 1)
    cases += codec.empty_member_grid_cases(ctx, every=3 if ctx.tier == 'quick' else 1)   # empty / non-empty constructed members around OPTIONAL ones
    cases += codec.tag_grid_cases(ctx, every=2 if ctx.tier == 'quick' else 1)            # every kind under every tagging shape of depth 0..2
    cases += codec.set_order_grid_cases(ctx, every=12 if ctx.tier == 'quick' else 1)     # every ordered pair of differently tagged SET members
    thin = (lambda l, k: l[ctx.seed % k::k]) if ctx.tier == 'quick' else (lambda l, k: l)      # quick tier: a rotating share of the two big families (C02/C03 run them in full)
    cases += thin(codec.long_tag_set_order_cases(ctx), 3) + thin(codec.mixed_form_sibling_cases(ctx), 2) + codec.default_constructed_cases(ctx) + codec.tagged_choice_in_choice_cases(ctx)   # round 7: long-form tag numbers of differing octet counts; long and short strings under the same tags; constructed DEFAULTs holding constructed members
    ctx.stats['constrained-leaf round trips'] += codec.constrained_leaf_roundtrips(ctx, codecs=('BER',))
    exprs, meta = [], []
    search_only = getattr(ctx, 'search_only', False)
    for c in cases:
        for defm, chunk in modes(ctx.rng):
            ctx.case((c.cty, c.cval, defm, chunk), c.T[0] not in ('bool', 'int', 'null', 'octs'))
            ctx.stats['mode:%s/%s' % ('def' if defm else 'indef', 'chunk' if chunk else 'nochunk')] += 1
            e = I.run_encode('BER', c.obj, defMode=defm, maxChunkSize=chunk)
            m = {'T': c.T, 'v': c.v, 'defMode': defm, 'maxChunkSize': chunk}
            fail = None
            d_lit = None
            if e[0] != 'ok':
                fail = 'encoder raised %s' % e[1]
            else:
                m['bytes'] = e[1].hex()
                d = I.run_decode('BER', e[1], asn1Spec=c.spec)
                d_lit, dd = codec.dec_lit(c.T, d)
                if d[0] != 'ok': fail = 'decoder raised %s' % d[1]
                elif d[2]: fail = 'non-empty remainder'
                elif not U.aval_eq(dd[1], c.want): fail = 'different abstract value'
            if fail:
                fid = codec.classify_roundtrip(c.T, c.v, 'BER', not defm)
                if fid is None:
                    T2, v2 = shrink.shrink(c.T, c.v, lambda a, b: gen.wf(a) and codec.any_positions_ok(a)
                                           and codec.classify_roundtrip(a, b, 'BER', not defm) is None
                                           and roundtrip(a, b, defm, chunk) is not None, budget=120)
                    m = {'T': T2, 'v': v2, 'defMode': defm, 'maxChunkSize': chunk, 'original': m}
                ctx.prop_fail('BER round trip fails: ' + fail, m, finding=fid)
                ctx.stats['prop_fail:' + (fid or 'unexplained')] += 1
            if not search_only:
                a = codec.enc_expr('BER', defm, chunk, c, e)
                b = codec.dec_expr('BER', c, e[1], d_lit) if d_lit else '0'
                exprs.append(codec.code3(a, b)); meta.append(m)
    if cases:
        ctx.sample({'type': cases[0].T, 'value': cases[0].v, 'ber_def': I.run_encode('BER', cases[0].obj)[1].hex()
                    if I.run_encode('BER', cases[0].obj)[0] == 'ok' else None})
    if not search_only:
        codes = core.coq_codes('c01', 'Model.Enc Model.Dec Model.Obs', exprs)
        for i, cd in codes.items():
            if cd == 2:
                ctx.stats['model_declines'] += 1
            else:
                ctx.corr_fail('model and implementation disagree on BER encode/decode', meta[i])


def replay(data):
    case = data.get('case', data)
    T, v = case['T'], case['v']
    print('type :', T); print('value:', v)
    print('implementation:', roundtrip(T, v, case['defMode'], case['maxChunkSize']) or 'round trip holds')
    c = codec.Case(T, v)
    print('model encode  :', core.coq_show('Model.Enc', 'encode BER %s %d %s %s' % (
        'true' if case['defMode'] else 'false', case['maxChunkSize'], c.cty, c.cval)))
    return 0



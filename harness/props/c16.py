"""C16 - self-describing encodings decode faithfully without a schema."""
from harness import core, codec, universe as U, implrun as I, gen, x690gen
from harness.coqio import cbytes
from harness.gen import base_desc, outer_tags
from pyasn1.type import univ, base, char, useful


def leaf_of_desc(T, v):
    k = base_desc(T)[0]
    if k == 'bool': return ('bool', bool(v[1]))
    if k in ('int', 'enum'): return ('int', v[1])
    if k == 'bits': return ('bits', tuple(v[1]))
    if k == 'null': return ('null',)
    if k == 'oid': return ('oid', tuple(v[1]))
    if k == 'real':
        a = U.absval(U.build_value(('real',), v), ('real',))
        return a
    if k == 'octs': return ('octs', bytes(v[1]))
    if k == 'str':
        return ('octs', v[1].encode(U.str_encoding(T)) if v[0] == 'chars' else bytes(v[1]))
    raise ValueError(T)


def bag(leaves):
    """order-free container: SET and SET OF are indistinguishable without a schema"""
    flat = []
    for l in leaves:
        if l[0] == 'bag': flat += list(l[1])
        else: flat.append(l)
    return ('bag', tuple(sorted(flat, key=repr)))


def expected_leaves(T, v):
    """scalar leaves of the value in encoding order; the content of a SET or SET OF as a sorted bag"""
    b = base_desc(T)
    k = b[0]
    if k in ('seq', 'set'):
        comps = [(ft, fv) for (p, ft), fv in zip(b[1], v[1])
                 if fv is not None and not (isinstance(p, tuple) and codec.default_equal(ft, fv, p[1]))]
        out = []
        for ft, fv in comps:
            out += expected_leaves(ft, fv)
        return [bag(out)] if k == 'set' else out
    if k == 'seqof':
        return [l for x in v[1] for l in expected_leaves(b[1], x)]
    if k == 'setof':
        return [bag([l for x in v[1] for l in expected_leaves(b[1], x)])]
    if k == 'choice':
        return expected_leaves(b[1][v[1]], v[2])
    return [leaf_of_desc(T, v)]


def object_leaves(obj):
    if isinstance(obj, (univ.SetOf, univ.Set)):
        return [bag([l for i in range(len(obj)) for l in object_leaves(obj[i])])]
    if isinstance(obj, (univ.SequenceOf,)):
        return [l for i in range(len(obj)) for l in object_leaves(obj[i])]
    if isinstance(obj, univ.SequenceAndSetBase):
        return [l for i in range(len(obj)) for l in object_leaves(obj[i])]
    if isinstance(obj, univ.Boolean): return [('bool', bool(int(obj)))]
    if isinstance(obj, univ.Integer): return [('int', int(obj))]
    if isinstance(obj, univ.BitString): return [('bits', tuple(int(x) for x in obj.asBinary()) if len(obj) else ())]
    if isinstance(obj, univ.Null): return [('null',)]
    if isinstance(obj, univ.ObjectIdentifier): return [('oid', tuple(int(x) for x in obj))]
    if isinstance(obj, univ.Real): return [U.absval(obj, ('real',))]
    if isinstance(obj, univ.OctetString): return [('octs', bytes(obj.asOctets()))]
    raise ValueError(type(obj).__name__)


def no_implicit(T):
    k = T[0]
    if k == 'imp': return False
    if k == 'exp': return no_implicit(T[2])
    if k in ('seqof', 'setof'): return no_implicit(T[1])
    if k in ('seq', 'set'): return all(no_implicit(ft) for _, ft in T[1])
    if k == 'choice': return all(no_implicit(a) for a in T[1])
    return True


def homogeneous(T):
    """no SET OF / SEQUENCE OF whose members may carry differing tags, no empty-vs-guess ambiguity excluded here"""
    k = T[0]
    if k in ('imp', 'exp'): return homogeneous(T[2])
    if k in ('seqof', 'setof'):
        if base_desc(T[1])[0] == 'choice' and T[1][0] == 'choice': return False
        return homogeneous(T[1])
    if k in ('seq', 'set'): return all(homogeneous(ft) for _, ft in T[1])
    if k == 'choice': return all(homogeneous(a) for a in T[1])
    return True


def run(ctx):
    ctx.rule = ('values of types using only universal tags and EXPLICIT tagging (no IMPLICIT, no ANY, no SET OF with differently tagged members), '
                'incl. empty/single-member/homogeneous containers; DER encoding decoded without a guiding type by the BER, CER and DER decoders: '
                "result is a value object, re-encodes byte-identically, scalar leaves in order equal the original's; the same leaves from BER "
                '(indefinite, chunked) and CER encodings; non-trivial = constructed type')
    search_only = getattr(ctx, 'search_only', False)
    cases = [c for c in codec.gen_cases(ctx, ctx.n(150, 3000), depth=3, implicit_ok=False, any_ok=False, reals='bin') if homogeneous(c.T)]
    # forced: empty and single-member containers
    for T, v in [(('seq', []), ('rec', [])), (('seqof', ('int',)), ('list', [])), (('set', []), ('rec', [])), (('setof', ('octs',)), ('list', [])),
                 (('seq', [('req', ('int',))]), ('rec', [('i', 5)])), (('seq', [('req', ('int',)), ('req', ('int',))]), ('rec', [('i', 1), ('i', 2)])),
                 (('seqof', ('seq', [])), ('list', [('rec', []), ('rec', [])])), (('exp', (128, 0, 3), ('seqof', ('null',))), ('list', []))]:
        cases.append(codec.Case(T, v))
    # wide records: 11..14 members of pairwise different types (schemaless field names field-10, field-11, .. come after field-1 in text order)
    wide = [(('int',), ('i', 3)), (('octs',), ('o', b'ab')), (('bool',), ('b', True)), (('null',), ('null',)), (('oid',), ('oid', (1, 2, 3))),
            (('bits',), ('bits', (1, 0, 1))), (('str', 'UTF8String'), ('chars', 'u')), (('str', 'IA5String'), ('chars', 'i')), (('enum',), ('i', 1)),
            (('str', 'NumericString'), ('chars', '12')), (('seqof', ('int',)), ('list', [('i', 9), ('i', 8)])), (('exp', (128, 0, 0), ('int',)), ('i', 4)),
            (('str', 'PrintableString'), ('chars', 'p')), (('exp', (64, 0, 1), ('octs',)), ('o', b'z'))]
    for kind in ('seq', 'set'):
        for n in (10, 11, 12, 14):
            for rot in (0, 5):
                ms = (wide[rot:] + wide[:rot])[:n]
                cases.append(codec.Case((kind, [('req', t) for t, _ in ms]), ('rec', [v for _, v in ms])))
    # systematic: every kind under every EXPLICIT tagging shape; every ordered pair of differently tagged SET members
    every = 6 if ctx.tier == 'quick' else 1
    cases += [c for c in codec.tag_grid_cases(ctx) if no_implicit(c.T) and homogeneous(c.T)]
    cases += codec.set_order_grid_cases(ctx, every=every, universal_only=True)
    cases += codec.mixed_form_sibling_cases(ctx)   # round 7: long and short strings under the same explicit tags
    exprs, meta = [], []
    for c in cases:
        der = I.run_encode('DER', c.obj)
        if der[0] != 'ok': continue
        try:
            want = expected_leaves(c.T, c.v)
        except Exception:
            continue
        variants = [('DER', der[1], 'DER'), ('DER', der[1], 'BER'), ('DER', der[1], 'CER')]
        # "its DER encoding" is what X.690 says it is: the independent reference encoding is decoded as well when the
        # encoder's output differs from it (that difference as such belongs to C03)
        try:
            ref = x690gen.der(c.T, c.v)
        except ValueError:
            ref = None
        if ref is not None and ref != der[1]:
            ctx.stats['reference_der_differs'] += 1
            variants += [('DER', ref, 'DER'), ('DER', ref, 'BER')]
        b1 = I.run_encode('BER', c.obj, defMode=False, maxChunkSize=ctx.rng.choice([0, 3]))
        if b1[0] == 'ok': variants.append(('BER-indef', b1[1], 'BER'))
        ce = I.run_encode('CER', c.obj)
        if ce[0] == 'ok': variants.append(('CER', ce[1], 'CER'))
        for label, data, dec in variants:
            d = I.run_decode(dec, data)
            ctx.case((label, dec, data), base_desc(c.T)[0] in ('seq', 'set', 'seqof', 'setof', 'choice'))
            ctx.stats['variant:%s/%s' % (label, dec)] += 1
            m = {'T': c.T, 'v': c.v, 'encoding': label, 'decoder': dec, 'bytes': data.hex()}
            fid = codec.classify_roundtrip(c.T, c.v, 'CER' if label == 'CER' else ('BER' if label != 'DER' else 'DER'), label != 'DER')
            if d[0] != 'ok':
                ctx.prop_fail('schemaless decoding raised %s' % d[1], m, finding=fid); continue
            obj = d[1]
            if obj is None or obj is base.noValue or not getattr(obj, 'isValue', False):
                ctx.prop_fail('schemaless decoding returned %s instead of a value object' % type(obj).__name__, m, finding=fid); continue
            if d[2]:
                ctx.prop_fail('schemaless decoding left a remainder', m, finding=fid); continue
            try:
                got = object_leaves(obj)
            except Exception as e:
                ctx.prop_fail('leaves of the decoded object cannot be read: %s' % type(e).__name__, m, finding=fid); continue
            if got != want:
                ctx.prop_fail("scalar leaves differ from the original's", dict(m, got=repr(got)[:300], want=repr(want)[:300]), finding=fid)
            if label == 'DER':
                r = I.run_encode('DER', obj)
                if r[0] != 'ok' or r[1] != data:
                    ctx.prop_fail('re-encoding the schemaless result is not byte-identical', dict(m, reencoded=r[1].hex() if r[0] == 'ok' else r[1]), finding=fid)
                if not search_only and dec == 'BER':
                    exprs.append('match decode BER None %s with Ok (DV T v, []) => enc_code (encode DER true 0 T v) %s | Err EUnmodelled => 2 | _ => 1 end' % (
                        cbytes(data), I.coq_res_bytes(r)))
                    meta.append(m)
    if meta: ctx.sample(meta[0]); ctx.sample(meta[-1])
    if not search_only:
        codes = core.coq_codes('c16', 'Model.Enc Model.Dec Model.Obs', exprs)
        for i, cd in codes.items():
            if cd == 2: ctx.stats['model_declines'] += 1
            else: ctx.corr_fail('model and implementation disagree on schemaless decode + re-encode', meta[i])


def replay(data):
    m = data.get('case', data)
    print(m)
    d = I.run_decode(m['decoder'], bytes.fromhex(m['bytes']))
    print(d[:2] if d[0] != 'ok' else ('ok', d[1].prettyPrint() if d[1] is not None else None, d[2]))
    return 0

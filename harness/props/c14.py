"""C14 - constraints mean what set theory says and cannot be bypassed.

Parts (all on pyasn1's public API):
  (a) random constraint expression trees (depth <= 4, every public constraint class) applied to
      candidate values around every boundary mentioned in the tree; the real constraint object is
      compared with the independent set-theoretic evaluator harness/settheory.py (the property) and
      with Model/Constraint.v's [ceval] evaluated inside Coq (the correspondence, three-valued);
  (b) derivation chains T0.subtype(...).subtype(...): subset on candidates, recognition by every
      ancestor (isSuperTypeOf), assignment into SEQUENCE OF / SEQUENCE slots declared with the ancestor;
  (c) every value-producing operation of Integer, OctetString, character strings, ObjectIdentifier,
      BitString (dunders, clone, subtype, BER decoding with asn1Spec) on boundary operands of
      constrained types: the result is an error or satisfies the result type's constraints;
      Real with value constraints (finding F14b);
  (d) ber/cer/der encoders refuse constructed values that violate their constraints; the decoder's
      treatment of SEQUENCE OF size constraints (finding F13).
"""
import math, operator
from harness import core, coqio
from harness import settheory as st
from pyasn1 import error
from pyasn1.type import univ, char, tag, namedtype, base, constraint as C
from pyasn1.type import error as type_error
from pyasn1.codec.ber import encoder as ber_enc, decoder as ber_dec
from pyasn1.codec.cer import encoder as cer_enc
from pyasn1.codec.der import encoder as der_enc

IMPORTS = 'Model.Constraint'

BASES = {
    'int': (univ.Integer, (0, 2)),
    'bytes': (univ.OctetString, (0, 4)),
    'text': (char.UTF8String, (0, 12)),
    'oid': (univ.ObjectIdentifier, (0, 6)),
    'bits': (univ.BitString, (0, 3)),
}
TAGCLS = {64: 'Appl', 128: 'Ctx', 192: 'Priv', 0: 'Univ'}
FIELDS_ALL = ['a', 'b', 'c']


# ------------------------------------------------------------------------------------------
# helpers

VCE = (error.ValueConstraintError, type_error.ValueConstraintError)   # two classes of that name exist


def exc_class(e):
    if isinstance(e, VCE):
        return 'EConstraint'
    if isinstance(e, error.PyAsn1Error):
        return 'EMalformed'
    return 'crash:' + type(e).__name__


def res_coq(r):
    """('ok', sval) | 'EConstraint' | 'EMalformed' | 'crash:K' -> Coq literal, None if not expressible"""
    if isinstance(r, tuple):
        return '(Ok %s)' % st.sval_coq(r[1])
    if r.startswith('crash:'):
        k = r[6:]
        return '(Err (ECrash %s))' % k if k in st.COQ_CRASHES else None
    return '(Err %s)' % r


def payload_of(obj, kind):
    """abstract payload of a scalar value object through public accessors only"""
    if kind == 'int':
        return ('int', int(obj))
    if kind == 'bytes':
        return ('bytes', obj.asOctets())
    if kind == 'text':
        return ('text', str(obj))
    if kind == 'oid':
        return ('oid', tuple(obj))
    if kind == 'bits':
        return ('bits', len(obj), obj.asInteger() + 0)
    raise ValueError(kind)


def raw_of(v):
    """what a user passes to the constructor for the abstract payload v"""
    if v[0] == 'bits':
        return tuple((v[2] >> (v[1] - 1 - i)) & 1 for i in range(v[1])) if v[1] else ''
    return v[1]


def kind_of_obj(obj):
    if isinstance(obj, univ.Integer): return 'int'
    if isinstance(obj, char.AbstractCharacterString): return 'text'
    if isinstance(obj, univ.OctetString): return 'bytes'
    if isinstance(obj, univ.ObjectIdentifier): return 'oid'
    if isinstance(obj, univ.BitString): return 'bits'
    return None


def make_type(kind, ops):
    cls, _ = BASES[kind]
    if not ops:
        return cls()
    return cls(subtypeSpec=C.ConstraintsIntersection(*[st.to_pyasn1(o) for o in ops]))


def stype_coq(kind, ops, tags=None):
    _, (tc, tn) = BASES[kind]
    tags = tags or [(tc, False, tn)]
    return '(mkSType [%s] (spec_of [%s]))' % (';'.join(coqio.ctag(c, f, n) for c, f, n in tags),
                                              ';'.join(st.to_coq(o) for o in ops))


def construct_outcome(T, v, kind):
    try:
        obj = T.clone(raw_of(v))
    except Exception as e:
        return exc_class(e), None
    return ('ok', payload_of(obj, kind)), obj


# ------------------------------------------------------------------------------------------
# (a) constraint trees

def part_a(ctx, exprs, meta):
    rng = ctx.rng
    kinds = ['int', 'bytes', 'text', 'oid', 'bits', 'map']
    fixed = [
        # the class docstrings' own examples
        (('single', [('int', z) for z in (1, 2, 3, 6)]), 'int'),
        (('contained', [('single', [('int', z) for z in (1, 2, 3, 6)])], [('int', 9), ('int', 18)], []), 'int'),
        (('range', 13, 19), 'int'),
        (('size', 1, 25), 'map'),
        (('alpha', [('text', 'T'), ('text', 'F')]), 'text'),
        (('or', [('with', [(('text', 'a'), ('present',)), (('text', 'b'), ('absent',))]),
                 ('with', [(('text', 'a'), ('absent',)), (('text', 'b'), ('present',))])]), 'map'),
        (('excl', [('single', [('int', 13)])]), 'int'),
        (('and', [('alpha', [('text', 'a'), ('text', 'z')]), ('alpha', [('text', 'a'), ('text', 'b')])]), 'text'),
        (('excl', [('single', [('int', 1)]), ('single', [('int', 2)])]), 'int'),
        (('inner', [((('int', 0), ('text', 'PRESENT')), ('single', [('int', 4)])),
                    ((('int', 1), ('text', 'ABSENT')), ('single', [('int', 5)]))]), 'int'),
    ]
    n = ctx.n(200, 2600)
    trees = list(fixed)
    for i in range(n):
        kind = kinds[i % len(kinds)] if i % 7 else rng.choice(kinds)
        d = 1 + (i % 4)
        mixed = 0.12 if i % 3 == 0 else 0.0
        plain = 0.35 if i % 5 == 0 else 0.0
        trees.append((st.gen_tree(rng, kind, d, mixed, plain), kind))
    for c, kind in trees:
        try:
            pc = st.to_pyasn1(c)
        except Exception as e:      # the constructors only refuse reversed ranges; never generated
            ctx.prop_fail('constraint constructor refuses a well-formed expression',
                          {'part': 'a', 'tree': c, 'error': repr(e)})
            continue
        dpt = st.depth(c)
        ctx.stats['a.depth%d' % min(dpt, 5)] += 1
        for k in st.classes(c):
            ctx.stats['a.class.' + k] += 1
        is_wf = st.wf(c)
        for idx in st.idx_candidates(rng, c):
            for x in st.candidates(rng, c, kind, 14):
                wrap = x is not None and x[0] == 'map' and rng.random() < 0.7
                v = st.impl_verdict(pc, x, idx, wrap)
                ctx.case(('a', c, idx, x), dpt >= 2)
                ctx.stats['a.kind.' + kind] += 1
                ctx.stats['a.impl.' + v.split(':')[0]] += 1
                case = {'part': 'a', 'tree': c, 'idx': idx, 'value': x, 'wrapped': wrap, 'impl': v}
                # the property, on the implementation's own verdict
                if is_wf and st.typed(c, idx, x, plain_ok=True):
                    ctx.stats['a.in_domain'] += 1
                    want = 'pass' if st.member(c, idx, x) else 'fail'
                    if v != want:
                        fid = 'F14c' if (st.has_contained_plain(c) and v == 'crash:AttributeError') else None
                        ctx.prop_fail('constraint verdict %s but set theory says %s' % (v, want),
                                      dict(case, expected=want), finding=fid)
                else:
                    ctx.stats['a.outside_domain'] += 1
                # the model, inside Coq
                if v.startswith('crash:') and v[6:] not in st.COQ_CRASHES:
                    ctx.corr_fail('implementation raised an exception the model has no name for', case)
                    continue
                exprs.append('verdict_eqb (ceval %s %s %s) %s' % (st.to_coq(c), st.idx_coq(idx), st.cval_coq(x),
                                                                  st.verdict_coq(v)))
                meta.append(('model and implementation disagree on a constraint verdict', case, None))
    ctx.sample({'part': 'a', 'tree': trees[len(fixed) + 3][0], 'kind': trees[len(fixed) + 3][1]})

    # empty operand / value lists: read as "no constraint" (Props/C14.v C14_empty_list_refuted);
    # outside the property's domain (not an expression ASN.1 can write) - recorded, compared with the model
    for c in [('or', []), ('single', []), ('alpha', []), ('excl', []), ('and', []), ('with', []), ('inner', []),
              ('contained', [], [], []), ('and', [('or', [])])]:
        for x in [('int', 5), ('text', 'ab'), None]:
            v = st.impl_verdict(st.to_pyasn1(c), x)
            ctx.case(('a0', c, x), False)
            ctx.stats['a.empty_list.' + v] += 1
            exprs.append('verdict_eqb (ceval %s None %s) %s' % (st.to_coq(c), st.cval_coq(x), st.verdict_coq(v)))
            meta.append(('model and implementation disagree on an empty operand list',
                         {'part': 'a', 'tree': c, 'idx': None, 'value': x, 'impl': v}, None))
    ctx.notes.append('empty operand/value lists admit every value (pyasn1 reads them as "no constraint"; '
                     'set theory as the empty set for union/single value): outside wf, see C14_empty_list_refuted')


# ------------------------------------------------------------------------------------------
# (b) derivation chains

def gen_chain(rng, kind):
    ops0 = [st.gen_tree(rng, kind, rng.randrange(1, 3)) for _ in range(rng.choice([0, 0, 1, 1, 2]))]
    steps = []
    for _ in range(rng.randrange(1, 5)):
        r = rng.random()
        tg = None
        if r < 0.3:
            tg = ('explicit', rng.choice([64, 128, 192]), rng.choice([0, 1, 5, 30, 31, 200]))
        elif r < 0.45:
            tg = ('implicit', rng.choice([64, 128, 192]), rng.choice([0, 1, 5, 30, 31, 200]))
        new = st.gen_tree(rng, kind, rng.randrange(1, 4)) if rng.random() < 0.85 or tg is None else None
        if rng.random() < 0.04:
            tg, new = None, None        # subtype() without arguments returns the same object
        steps.append((tg, new))
    return ops0, steps


def tagging_coq(tg):
    if tg is None:
        return 'NoTag'
    return '(%s %s)' % ('ExplicitTag' if tg[0] == 'explicit' else 'ImplicitTag', coqio.ctag(tg[1], False, tg[2]))


def build_chain(kind, ops0, steps):
    T = make_type(kind, ops0)
    Ts, cons = [T], [list(ops0)]
    for tg, new in steps:
        kw = {}
        if new is not None:
            kw['subtypeSpec'] = st.to_pyasn1(new)
        if tg is not None:
            kw['explicitTag' if tg[0] == 'explicit' else 'implicitTag'] = tag.Tag(tg[1], tag.tagFormatSimple, tg[2])
        T = T.subtype(**kw)
        Ts.append(T)
        cons.append(cons[-1] + ([new] if new is not None else []))
    return Ts, cons


def part_b(ctx, exprs, meta):
    rng = ctx.rng
    fixed = [('int', [('range', 0, 100)], [(None, ('range', 10, 50)), (None, ('single', [('int', 20), ('int', 30)]))]),
             ('int', [('range', 0, 100)], [(('explicit', 128, 1), ('range', 10, 50))]),
             ('bytes', [], [(None, ('size', 1, 4)), (('explicit', 64, 7), ('size', 2, 3))]),
             ('text', [('size', 0, 5)], [(None, ('alpha', [('text', 'a'), ('text', 'b')])), (None, ('size', 1, 2))])]
    chains = list(fixed)
    for i in range(ctx.n(70, 600)):
        kind = ['int', 'bytes', 'text', 'oid', 'bits'][i % 5]
        chains.append((kind,) + gen_chain(rng, kind))
    for kind, ops0, steps in chains:
        Ts, cons = build_chain(kind, ops0, steps)
        n = len(Ts)
        chain_coq = '(derive_chain %s [%s])' % (stype_coq(kind, ops0), ';'.join(
            '(%s,%s)' % (tagging_coq(tg), 'None' if new is None else '(Some %s)' % st.to_coq(new)) for tg, new in steps))
        desc = {'part': 'b', 'kind': kind, 'ops0': ops0, 'steps': steps}
        ctx.stats['b.chain_len%d' % n] += 1
        ctx.stats['b.kind.' + kind] += 1
        # recognition
        for i in range(n):
            for j in range(n):
                got = bool(Ts[i].isSuperTypeOf(Ts[j]))
                ctx.case(('b.super', kind, ops0, steps, i, j), i != j)
                exprs.append('chain_super %s %s %s %s' % (chain_coq, coqio.cnat(i), coqio.cnat(j), coqio.cbool(got)))
                meta.append(('model and implementation disagree on isSuperTypeOf', dict(desc, i=i, j=j, impl=got), None))
                if i < j and all(tg is None or tg[0] == 'explicit' for tg, _ in steps[i:j]):
                    ctx.stats['b.recognition_checked'] += 1
                    if cons[i]:
                        ctx.stats['b.recognition_constrained_ancestor'] += 1
                    if not got:
                        ctx.prop_fail('a type derived by adding constraints is not recognised by its ancestor '
                                      '(isSuperTypeOf is False)', dict(desc, i=i, j=j))
        # subset + agreement with set theory + assignment
        whole = ('and', [o for o in cons[-1]]) if cons[-1] else None
        cands = st.candidates(rng, whole, kind, 10) if whole else [st.gen_scalar(rng, kind) for _ in range(4)]
        for x in cands:
            acc, objs = [], []
            for i in range(n):
                r, obj = construct_outcome(Ts[i], x, kind)
                acc.append(r); objs.append(obj)
                ctx.case(('b.construct', kind, ops0, steps, i, x), bool(cons[i]))
                case = dict(desc, i=i, value=x, impl=r)
                tree = ('and', cons[i]) if cons[i] else None
                if tree is None:
                    if not isinstance(r, tuple):
                        ctx.prop_fail('an unconstrained type rejects a value', case)
                elif st.wf(tree) and st.typed(tree, None, x):
                    want = st.member(tree, None, x)
                    if isinstance(r, tuple) != want or (not want and r != 'EConstraint'):
                        ctx.prop_fail('constructor outcome %r but set theory says member=%s' % (r, want), case)
                rc = res_coq(r)
                if rc is None:
                    ctx.corr_fail('constructor raised an exception the model has no name for', case)
                else:
                    exprs.append('chain_construct %s %s %s %s' % (chain_coq, coqio.cnat(i), st.sval_coq(x), rc))
                    meta.append(('model and implementation disagree on the constructor outcome', case, None))
            for i in range(n):
                for j in range(i + 1, n):
                    if isinstance(acc[j], tuple) and not isinstance(acc[i], tuple):
                        ctx.prop_fail('derived type admits a value its ancestor rejects', dict(desc, i=i, j=j, value=x))
                    if (isinstance(acc[j], tuple) and objs[j] is not None
                            and all(tg is None or tg[0] == 'explicit' for tg, _ in steps[i:j])):
                        ctx.stats['b.assignments'] += 1
                        for how in ('seqof', 'seq'):
                            try:
                                if how == 'seqof':
                                    univ.SequenceOf(componentType=Ts[i]).setComponentByPosition(0, objs[j])
                                else:
                                    univ.Sequence(componentType=namedtype.NamedTypes(
                                        namedtype.NamedType('f', Ts[i]))).setComponentByName('f', objs[j])
                            except Exception as e:
                                ctx.prop_fail('a value of a derived type cannot be assigned where its ancestor is '
                                              'expected (%s): %s' % (how, type(e).__name__),
                                              dict(desc, i=i, j=j, value=x))
    ctx.sample({'part': 'b', 'kind': chains[5][0], 'ops0': chains[5][1], 'steps': chains[5][2]})


# ------------------------------------------------------------------------------------------
# (c) value-producing operations

INT_BIN = [('IAdd', operator.add), ('ISub', operator.sub), ('IMul', operator.mul), ('IFloorDiv', operator.floordiv),
           ('IMod', operator.mod), ('IPow', operator.pow), ('IAnd', operator.and_), ('IOr', operator.or_),
           ('IXor', operator.xor), ('ILsh', operator.lshift), ('IRsh', operator.rshift)]
INT_UN = [('INeg', operator.neg), ('IPos', operator.pos), ('IAbs', abs), ('IInvert', operator.invert)]
INT_OTHER = [('truediv', lambda a, b: a / b), ('rtruediv', lambda a, b: b / a), ('divmod', divmod),
             ('rdivmod', lambda a, b: divmod(b, a)), ('round1', lambda a, b: round(a, 1)),
             ('round0', lambda a, b: round(a)), ('trunc', lambda a, b: math.trunc(a)),
             ('floor', lambda a, b: math.floor(a)), ('ceil', lambda a, b: math.ceil(a)),
             ('pow3', lambda a, b: pow(a, 2, b if b else 7))]


def check_result(ctx, registry, res, case, what):
    """the property for one operation result: a scalar value object must satisfy its own type's constraints"""
    if not isinstance(res, base.SimpleAsn1Type):
        ctx.stats['c.result.not_a_value_object'] += 1
        return
    if not res.isValue:
        ctx.stats['c.result.schema_object'] += 1
        return
    kind = kind_of_obj(res)
    spec = res.subtypeSpec
    tree = registry.get(id(spec))
    if tree is None:
        if spec:            # constraints we did not build: re-check with the library's own object, count it
            ctx.stats['c.result.foreign_spec'] += 1
        else:
            ctx.stats['c.result.unconstrained_type'] += 1
        return
    if kind is None:
        ctx.stats['c.result.other_type'] += 1
        return
    v = payload_of(res, kind)
    ctx.stats['c.result.checked'] += 1
    if not st.member(tree, None, v):
        ctx.prop_fail('%s produced a value object its type\'s constraints reject' % what, dict(case, result=v))


def run_op(f, *args):
    try:
        return f(*args), None
    except Exception as e:
        return None, e


def outcome_of(res, exc, kind):
    if exc is not None:
        return exc_class(exc)
    if isinstance(res, base.SimpleAsn1Type) and kind_of_obj(res) == kind:
        return ('ok', payload_of(res, kind))
    return None


def part_c(ctx, exprs, meta):
    rng = ctx.rng
    registry = {}

    def new_type(kind, ops):
        T = make_type(kind, ops)
        if ops:
            registry[id(T.subtypeSpec)] = ('and', ops)
        return T

    def emit(model, outcome, what, case):
        """compare the model's prediction with the implementation unless the model declines"""
        if outcome is None:
            return
        rc = res_coq(outcome)
        if rc is None:      # e.g. ZeroDivisionError: the model must have declined
            exprs.append('is_unmodelled %s' % model)
        else:
            exprs.append('(is_unmodelled %s || outcome_eqb %s %s)' % (model, model, rc))
        meta.append(('model and implementation disagree on %s' % what, case, None))

    n_types = ctx.n(30, 280)
    for t in range(n_types):
        kind = ['int', 'int', 'bytes', 'text', 'oid', 'bits'][t % 6]
        for attempt in range(12):       # prefer types that admit at least one of their boundary candidates
            ops = [st.gen_tree(rng, kind, rng.randrange(1, 4)) for _ in range(rng.choice([1, 1, 2]))]
            tree = ('and', ops)
            cands = st.candidates(rng, tree, kind, 14)
            values = [x for x in cands if st.member(tree, None, x)][:4]
            if values:
                break
        T = new_type(kind, ops)
        Tc = stype_coq(kind, ops)
        ctx.stats['c.types.' + kind] += 1
        if not values:
            ctx.stats['c.types_without_member_candidate'] += 1
        # constructor / clone / decoding with asn1Spec on every candidate
        for x in cands:
            r, obj = construct_outcome(T, x, kind)
            case = {'part': 'c', 'op': 'construct', 'kind': kind, 'ops': ops, 'value': x, 'impl': r}
            ctx.case(('c.construct', kind, ops, x), True)
            want = st.member(tree, None, x)
            if isinstance(r, tuple) != want or (not want and r != 'EConstraint'):
                ctx.prop_fail('constructor outcome %r but set theory says member=%s' % (r, want), case)
            emit('(op_clone %s %s)' % (Tc, st.sval_coq(x)), r, 'the constructor', case)
            # BER decoding of the same abstract value with asn1Spec=T (only where plain BER round-trips it)
            plain = BASES[kind][0](raw_of(x))
            res0, exc0 = run_op(lambda: ber_dec.decode(ber_enc.encode(plain), asn1Spec=BASES[kind][0]())[0])
            if exc0 is None and payload_of(res0, kind) == x:
                sub = ber_enc.encode(plain)
                ctx.case(('c.decode', kind, ops, x), True)
                ctx.stats['c.decode'] += 1
                res, exc = run_op(lambda: ber_dec.decode(sub, asn1Spec=T)[0])
                dcase = dict(case, op='decode', substrate=sub.hex())
                if exc is None:
                    check_result(ctx, registry, res, dcase, 'BER decoding with asn1Spec')
                    if not want:
                        ctx.prop_fail('decoder yields a value the type\'s constraints reject', dcase)
                elif not isinstance(exc, error.PyAsn1Error):
                    ctx.prop_fail('decoder raised %s' % type(exc).__name__, dcase)
                elif want:
                    ctx.prop_fail('decoder refuses a value the type admits', dcase)
            else:
                ctx.stats['c.decode_skipped_no_plain_roundtrip'] += 1
        # operations on admitted values
        for v in values:
            obj = T.clone(raw_of(v))
            operands = [y for y in cands if y != v][:5] + [v]
            # clone(subtypeSpec=...) replaces, subtype(subtypeSpec=...) adds
            extra = st.gen_tree(rng, kind, rng.randrange(1, 3))
            pextra = st.to_pyasn1(extra)
            for how in ('clone_spec', 'subtype'):
                res, exc = run_op(lambda: obj.clone(subtypeSpec=C.ConstraintsIntersection(pextra)) if how == 'clone_spec'
                                  else obj.subtype(subtypeSpec=pextra))
                new_ops = [extra] if how == 'clone_spec' else ops + [extra]
                if exc is None:
                    registry[id(res.subtypeSpec)] = ('and', new_ops)
                case = {'part': 'c', 'op': how, 'kind': kind, 'ops': ops, 'value': v, 'extra': extra}
                ctx.case(('c.' + how, kind, ops, v, extra), True)
                if exc is None:
                    check_result(ctx, registry, res, case, how)
                elif not isinstance(exc, error.PyAsn1Error):
                    ctx.stats['c.exc.' + type(exc).__name__] += 1
                want = st.member(('and', new_ops), None, v)
                if (exc is None) != want and st.typed(('and', new_ops), None, v):
                    ctx.prop_fail('%s outcome disagrees with set theory (member=%s)' % (how, want), case)
                model = ('(op_clone_spec %s (spec_of [%s]) %s)' % (Tc, st.to_coq(extra), st.sval_coq(v)) if how == 'clone_spec'
                         else '(op_subtype %s NoTag (Some %s) %s)' % (Tc, st.to_coq(extra), st.sval_coq(v)))
                emit(model, outcome_of(res, exc, kind), how, case)
            if kind == 'int':
                a = v[1]
                for y in operands:
                    b = y[1]
                    for name, f in INT_BIN:
                        if name == 'IPow' and not (-2 <= b <= 4 and abs(a) < 2 ** 70):
                            continue
                        if name in ('ILsh', 'IRsh') and not (-2 <= b <= 70):     # Coq's shifts iterate b times
                            continue
                        for refl in ((False,) if name in ('ILsh', 'IRsh') else (False, True)):   # no __rlshift__/__rrshift__
                            if name == 'IPow' and refl and not (-2 <= a <= 4 and abs(b) < 2 ** 70):
                                continue
                            if name == 'ILsh' and refl and not (-2 <= a <= 70):
                                continue
                            res, exc = run_op(f, b, obj) if refl else run_op(f, obj, b)
                            case = {'part': 'c', 'op': name, 'reflected': refl, 'kind': kind, 'ops': ops,
                                    'value': v, 'operand': y}
                            ctx.case(('c.int', name, refl, ops, a, b), True)
                            ctx.stats['c.int_ops'] += 1
                            if exc is None:
                                check_result(ctx, registry, res, case, 'Integer.%s' % name)
                            elif not isinstance(exc, error.PyAsn1Error):
                                ctx.stats['c.exc.' + type(exc).__name__] += 1
                            emit('(op_int %s %s %s %s %s)' % (Tc, name, coqio.cbool(refl), coqio.cZ(a), coqio.cZ(b)),
                                 outcome_of(res, exc, kind), 'Integer arithmetic', case)
                    # the same with ASN.1 operands (property only)
                    for name, f in INT_BIN[:5]:
                        for other in (univ.Integer(b), T):
                            try:
                                o = other if other is not T else T.clone(b)
                            except error.PyAsn1Error:
                                continue
                            res, exc = run_op(f, obj, o)
                            ctx.case(('c.int2', name, ops, a, b, other is T), True)
                            if exc is None:
                                check_result(ctx, registry, res, {'part': 'c', 'op': name, 'kind': kind, 'ops': ops,
                                                                  'value': v, 'operand': y, 'asn1_operand': True},
                                             'Integer.%s with an ASN.1 operand' % name)
                    for name, f in INT_OTHER:
                        res, exc = run_op(f, obj, b)
                        ctx.case(('c.int3', name, ops, a, b), True)
                        if exc is None:
                            check_result(ctx, registry, res, {'part': 'c', 'op': name, 'kind': kind, 'ops': ops,
                                                              'value': v, 'operand': y}, 'Integer %s' % name)
                        elif not isinstance(exc, error.PyAsn1Error):
                            ctx.stats['c.exc.' + type(exc).__name__] += 1
                for name, f in INT_UN:
                    res, exc = run_op(f, obj)
                    case = {'part': 'c', 'op': name, 'kind': kind, 'ops': ops, 'value': v}
                    ctx.case(('c.int1', name, ops, a), True)
                    if exc is None:
                        check_result(ctx, registry, res, case, 'Integer.%s' % name)
                    emit('(op_int_unary %s %s %s)' % (Tc, name, coqio.cZ(a)), outcome_of(res, exc, kind),
                         'Integer unary arithmetic', case)
            elif kind in ('bytes', 'text', 'oid'):
                seq = v[1]
                lit = lambda s: '[%s]' % ';'.join('%d%%N' % (ord(e) if kind == 'text' else e) for e in s)
                for y in operands:
                    for refl in (False, True):
                        res, exc = run_op(operator.add, y[1], obj) if refl else run_op(operator.add, obj, y[1])
                        case = {'part': 'c', 'op': 'concat', 'reflected': refl, 'kind': kind, 'ops': ops, 'value': v, 'operand': y}
                        ctx.case(('c.concat', kind, refl, ops, v, y), True)
                        ctx.stats['c.seq_ops'] += 1
                        if exc is None:
                            check_result(ctx, registry, res, case, 'concatenation')
                        elif not isinstance(exc, error.PyAsn1Error):
                            ctx.stats['c.exc.' + type(exc).__name__] += 1
                        emit('(op_seq %s (QConcat %s %s) %s)' % (Tc, lit(y[1]), coqio.cbool(refl), st.sval_coq(v)),
                             outcome_of(res, exc, kind), 'concatenation', case)
                if kind != 'oid':
                    for k in (-1, 0, 1, 2, 3):
                        for refl in (False, True):
                            res, exc = run_op(operator.mul, k, obj) if refl else run_op(operator.mul, obj, k)
                            case = {'part': 'c', 'op': 'repeat', 'reflected': refl, 'kind': kind, 'ops': ops, 'value': v, 'n': k}
                            ctx.case(('c.repeat', kind, refl, ops, v, k), True)
                            ctx.stats['c.seq_ops'] += 1
                            if exc is None:
                                check_result(ctx, registry, res, case, 'repetition')
                            emit('(op_seq %s (QRepeat %s) %s)' % (Tc, coqio.cZ(k), st.sval_coq(v)),
                                 outcome_of(res, exc, kind), 'repetition', case)
                L = len(seq)
                bounds = [None, 0, 1, -1, L - 1, L, L + 1, -L, -L - 1, 2]
                for _ in range(14):
                    a, b, s = rng.choice(bounds), rng.choice(bounds), rng.choice([None, None, 1, 2, 3, -1, -2])
                    res, exc = run_op(lambda: obj[a:b:s])
                    case = {'part': 'c', 'op': 'slice', 'kind': kind, 'ops': ops, 'value': v, 'slice': (a, b, s)}
                    ctx.case(('c.slice', kind, ops, v, a, b, s), True)
                    ctx.stats['c.seq_ops'] += 1
                    if exc is None:
                        check_result(ctx, registry, res, case, 'slicing')
                    o = lambda z: 'None' if z is None else '(Some %s)' % coqio.cZ(z)
                    emit('(op_seq %s (QSlice %s %s %s) %s)' % (Tc, o(a), o(b), o(s), st.sval_coq(v)),
                         outcome_of(res, exc, kind), 'slicing', case)
            elif kind == 'bits':
                for y in operands:
                    other = univ.BitString(raw_of(y))
                    text = "'%s'B" % ''.join(str((y[2] >> (y[1] - 1 - i)) & 1) for i in range(y[1]))
                    for refl in (False, True):
                        # str + BitString falls through to BitString.__radd__
                        res, exc = run_op(operator.add, text, obj) if refl else run_op(operator.add, obj, other)
                        case = {'part': 'c', 'op': 'bits_concat', 'reflected': refl, 'kind': kind, 'ops': ops, 'value': v, 'operand': y}
                        ctx.case(('c.bconcat', refl, ops, v, y), True)
                        ctx.stats['c.bits_ops'] += 1
                        if exc is None:
                            check_result(ctx, registry, res, case, 'BitString concatenation')
                        emit('(op_bits %s (BConcat %d%%N %s %s) %s)' % (Tc, y[1], coqio.cZ(y[2]), coqio.cbool(refl), st.sval_coq(v)),
                             outcome_of(res, exc, kind), 'BitString concatenation', case)
                for k in (0, 1, 2, 3, 9):
                    for name, f in (('BLsh', operator.lshift), ('BRsh', operator.rshift)):
                        res, exc = run_op(f, obj, k)
                        case = {'part': 'c', 'op': name, 'kind': kind, 'ops': ops, 'value': v, 'n': k}
                        ctx.case(('c.bshift', name, ops, v, k), True)
                        ctx.stats['c.bits_ops'] += 1
                        if exc is None:
                            check_result(ctx, registry, res, case, 'BitString shift')
                        emit('(op_bits %s (%s %s) %s)' % (Tc, name, coqio.cZ(k), st.sval_coq(v)),
                             outcome_of(res, exc, kind), 'BitString shift', case)
                L = v[1]
                for _ in range(8):
                    a, b, s = rng.choice([None, 0, 1, -1, L, L + 1]), rng.choice([None, 0, 1, -1, L, L + 1]), rng.choice([None, 1, 2, -1])
                    res, exc = run_op(lambda: obj[a:b:s])
                    ctx.case(('c.bslice', ops, v, a, b, s), True)
                    if exc is None:
                        check_result(ctx, registry, res, {'part': 'c', 'op': 'bits_slice', 'kind': kind, 'ops': ops,
                                                          'value': v, 'slice': (a, b, s)}, 'BitString slicing')
                for k in (0, 1, 2, 3):
                    res, exc = run_op(operator.mul, obj, k)
                    ctx.case(('c.bmul', ops, v, k), True)
                    if exc is None:
                        check_result(ctx, registry, res, {'part': 'c', 'op': 'bits_repeat', 'kind': kind, 'ops': ops,
                                                          'value': v, 'n': k}, 'BitString repetition')

    # REAL: the constraints get the (mantissa, base, exponent) tuple (finding F14b)
    for spec, tree, val, member in [
            (lambda: C.ValueRangeConstraint(0, 10), 'ValueRangeConstraint(0, 10)', 5.0, True),
            (lambda: C.ValueRangeConstraint(0, 10), 'ValueRangeConstraint(0, 10)', 11.0, False),
            (lambda: C.ValueRangeConstraint(-1.5, 1.5), 'ValueRangeConstraint(-1.5, 1.5)', 0.5, True),
            (lambda: C.SingleValueConstraint(1.5, 2.5), 'SingleValueConstraint(1.5, 2.5)', 1.5, True),
            (lambda: C.SingleValueConstraint(1.5, 2.5), 'SingleValueConstraint(1.5, 2.5)', 3.5, False),
            (lambda: C.ConstraintsUnion(C.SingleValueConstraint(7), C.ValueRangeConstraint(0, 1)),
             'ConstraintsUnion(SingleValueConstraint(7), ValueRangeConstraint(0, 1))', 7, True)]:
        ctx.case(('c.real', tree, val), True)
        ctx.stats['c.real_probes'] += 1
        res, exc = run_op(lambda: univ.Real(val, subtypeSpec=C.ConstraintsIntersection(spec())))
        case = {'part': 'c', 'op': 'real', 'constraint': tree, 'value': val, 'impl': 'ok' if exc is None else type(exc).__name__}
        got = 'ok' if exc is None else ('EConstraint' if isinstance(exc, VCE) else 'crash')
        if got != ('ok' if member else 'EConstraint'):
            # class predicate of F14b: the type is REAL and the expression holds a value range or a
            # single value written as a number
            ctx.prop_fail('REAL %r under %s: %s, set theory says member=%s' % (val, tree, case['impl'], member),
                          case, finding='F14b')
    ctx.sample({'part': 'c', 'registry_size': len(registry)})


# ------------------------------------------------------------------------------------------
# (d) encoders refuse inconsistent constructed values; decoder and SEQUENCE OF sizes

def part_d(ctx, exprs, meta):
    rng = ctx.rng
    encs = [('ber', ber_enc), ('cer', cer_enc), ('der', der_enc)]
    for t in range(ctx.n(30, 250)):
        # SEQUENCE OF / SET OF under size-only expressions
        tree = st.gen_tree(rng, 'bits', rng.randrange(1, 4))     # 'bits' trees are built from sizes only
        ptree = st.to_pyasn1(tree)
        cls = rng.choice([univ.SequenceOf, univ.SetOf])
        T = cls(componentType=univ.Integer(), subtypeSpec=C.ConstraintsIntersection(ptree))
        b = st.boundaries(tree, {'consts': [], 'alpha': [], 'ints': [], 'sizes': [], 'fields': [], 'idx': []})
        sizes = sorted({m for s in b['sizes'] for m in (s - 1, s, s + 1) if 0 <= m <= 9} | {0, 1})
        for m in sizes:
            x = ('map', [(('int', i), ('int', i % 3)) for i in range(m)])
            want = st.member(tree, None, x)
            v = T.clone()
            if m:
                v.extend([i % 3 for i in range(m)])
            else:
                v.clear()
            outs = []
            for name, enc in encs:
                res, exc = run_op(enc.encode, v)
                outs.append('ok' if exc is None else ('refused' if isinstance(exc, error.PyAsn1Error) else 'crash:' + type(exc).__name__))
            case = {'part': 'd', 'type': cls.__name__, 'tree': tree, 'size': m, 'impl': outs}
            ctx.case(('d.seqof', cls.__name__, tree, m), True)
            ctx.stats['d.seqof.' + ('consistent' if want else 'inconsistent')] += 1
            if any(o != ('ok' if want else 'refused') for o in outs):
                ctx.prop_fail('encoders %r a %s value (set theory: member=%s)' % (outs, cls.__name__, want), case)
            exprs.append('verdict_eqb (ceval (CAnd [%s]) None %s) %s' % (st.to_coq(tree), st.cval_coq(x),
                                                                          'Pass' if outs[0] == 'ok' else 'Fail'))
            meta.append(('model and encoder disagree on a SEQUENCE OF size constraint', case, None))
            # decoding the same elements against the constrained type (finding F13)
            sub = ber_enc.encode(cls(componentType=univ.Integer()).clone().setComponents(*[i % 3 for i in range(m)])
                                 if m else cls(componentType=univ.Integer()).clear())
            res, exc = run_op(lambda: ber_dec.decode(sub, asn1Spec=T)[0])
            ctx.case(('d.decode', cls.__name__, tree, m), True)
            ctx.stats['d.decode'] += 1
            if exc is None and not want:
                # class predicate of F13: SEQUENCE OF / SET OF decoded with asn1Spec whose size constraint the
                # element count violates
                ctx.prop_fail('decoder accepts %d elements for a %s whose constraints reject that size' % (m, cls.__name__),
                              dict(case, substrate=sub.hex()), finding='F13')
            elif exc is not None and (want or not isinstance(exc, error.PyAsn1Error)):
                ctx.prop_fail('decoder raised %s on a consistent value' % type(exc).__name__, dict(case, substrate=sub.hex()))
    for t in range(ctx.n(30, 250)):
        # SEQUENCE / SET under WITH COMPONENTS expressions
        tree = st.gen_tree(rng, 'map', rng.randrange(2, 5))
        if 'with' not in st.classes(tree):
            tree = ('and', [tree, st.gen_leaf(rng, 'map')])
        ptree = st.to_pyasn1(tree)
        cls = rng.choice([univ.Sequence, univ.Set])
        comps = namedtype.NamedTypes(
            namedtype.OptionalNamedType('a', univ.Integer()),
            namedtype.OptionalNamedType('b', univ.OctetString()),
            namedtype.OptionalNamedType('c', char.UTF8String()))
        T = cls(componentType=comps, subtypeSpec=C.ConstraintsIntersection(ptree))
        for x in [y for y in st.candidates(rng, tree, 'map', 16) if all(k[0] == 'text' for k, _ in y[1])][:10]:
            if not st.typed(tree, None, x):
                ctx.stats['d.seq.untyped_skipped'] += 1
                continue
            want = st.member(tree, None, x)
            v = T.clone()
            v.clear()
            for k, val in x[1]:
                v[k[1]] = val[1]
            outs = []
            for name, enc in encs:
                res, exc = run_op(enc.encode, v)
                outs.append('ok' if exc is None else ('refused' if isinstance(exc, error.PyAsn1Error) else 'crash:' + type(exc).__name__))
            case = {'part': 'd', 'type': cls.__name__, 'tree': tree, 'value': x, 'impl': outs}
            ctx.case(('d.seq', cls.__name__, tree, x), True)
            ctx.stats['d.seq.' + ('consistent' if want else 'inconsistent')] += 1
            if any(o != ('ok' if want else 'refused') for o in outs):
                ctx.prop_fail('encoders %r a %s value (set theory: member=%s)' % (outs, cls.__name__, want), case)
            # reading the value (which instantiates schema objects for the absent OPTIONAL components)
            # must not change what the encoders think of it
            for k in FIELDS_ALL:
                v.getComponentByName(k)
            res, exc = run_op(ber_enc.encode, v)
            again = 'ok' if exc is None else ('refused' if isinstance(exc, error.PyAsn1Error) else 'crash:' + type(exc).__name__)
            if again != ('ok' if want else 'refused'):
                ctx.prop_fail('after its components have been read, the BER encoder says %r to a %s value '
                              '(set theory: member=%s)' % (again, cls.__name__, want), dict(case, after_read=again))
            exprs.append('verdict_eqb (ceval (CAnd [%s]) None %s) %s' % (st.to_coq(tree), st.cval_coq(x),
                                                                          'Pass' if outs[0] == 'ok' else 'Fail'))
            meta.append(('model and encoder disagree on a WITH COMPONENTS constraint', case, None))
            if not again.startswith('crash'):
                given = dict((k[1], val) for k, val in x[1])
                rec = '[%s]' % ';'.join('(%s, %s)' % (st.sval_coq(('text', k)),
                                                     '(Assigned %s)' % st.sval_coq(given[k]) if k in given else 'Unset')
                                        for k in FIELDS_ALL)
                exprs.append('verdict_eqb (encoder_admits (spec_of [%s]) (read_all %s)) %s' % (
                    st.to_coq(tree), rec, 'Pass' if again == 'ok' else 'Fail'))
                meta.append(('model and encoder disagree on a record whose components have been read',
                             dict(case, after_read=again), None))
    ctx.sample({'part': 'd', 'encoders': [n for n, _ in encs]})


# ------------------------------------------------------------------------------------------
# (e) initializers that are VALUE OBJECTS of related types, through every entry point

def family(rng, kind, ops, keep, extra=None):
    """P (constraints = intersection of `ops`) and types related to it: [(label, type object, ops')] where the
    intersection of ops' is the set the type's subtypeSpec denotes.  Related = derived with subtype()/clone(), or
    built with unions / intersections / exclusions around P's own subtypeSpec object or its operands (which makes
    them look like sub- or supertypes to isSuperTypeOf), or unrelated with wider / no constraints."""
    cls = BASES[kind][0]
    P = make_type(kind, ops)
    ptree = ('and', ops)
    extra = extra if extra is not None else st.gen_tree(rng, kind, rng.randrange(1, 3))
    pextra = st.to_pyasn1(extra)
    fresh = lambda: [st.to_pyasn1(o) for o in ops]
    fam = [('parent', P, ops)]
    def add(label, make, ops_):
        try:
            T = make()
        except error.PyAsn1Error:
            return
        fam.append((label, T, ops_))
    add('union_mentions_parent_spec', lambda: cls(subtypeSpec=C.ConstraintsUnion(P.subtypeSpec, pextra)),
        [('or', [ptree, extra])])
    add('intersection_of_union_mentioning_parent',
        lambda: cls(subtypeSpec=C.ConstraintsIntersection(C.ConstraintsUnion(P.subtypeSpec, pextra))),
        [('or', [ptree, extra])])
    add('union_of_parent_operands_and_more', lambda: cls(subtypeSpec=C.ConstraintsUnion(*(fresh() + [pextra]))),
        [('or', ops + [extra])])
    add('union_of_parent_operands', lambda: cls(subtypeSpec=C.ConstraintsUnion(*fresh())), [('or', ops)])
    add('exclusion_of_parent_operands', lambda: cls(subtypeSpec=C.ConstraintsExclusion(*fresh())), [('excl', ops)])
    add('intersection_of_exclusion', lambda: cls(subtypeSpec=C.ConstraintsIntersection(C.ConstraintsExclusion(*fresh()))),
        [('excl', ops)])
    add('intersection_of_union_of_operands', lambda: cls(subtypeSpec=C.ConstraintsIntersection(C.ConstraintsUnion(*fresh()))),
        [('or', ops)])
    add('exclusion_of_parent_spec', lambda: cls(subtypeSpec=C.ConstraintsExclusion(P.subtypeSpec)), [('excl', [ptree])])
    add('derived_by_subtype', lambda: P.subtype(subtypeSpec=pextra), ops + [extra])
    add('derived_by_subtype_explicit_tag',
        lambda: P.subtype(subtypeSpec=pextra, explicitTag=tag.Tag(tag.tagClassContext, tag.tagFormatSimple, 3)), ops + [extra])
    add('derived_then_widened', lambda: cls(subtypeSpec=C.ConstraintsUnion(P.subtypeSpec + pextra, st.to_pyasn1(extra))),
        [('or', [('and', ops + [extra]), extra])])
    add('clone_with_other_constraints', lambda: P.clone(subtypeSpec=C.ConstraintsIntersection(pextra)), [extra])
    add('unconstrained', lambda: cls(), [])
    add('unrelated_wider', lambda: cls(subtypeSpec=C.ConstraintsIntersection(st.to_pyasn1(('or', [ptree, extra])))),
        [('or', [ptree, extra])])
    add('same_constraints_built_again', lambda: make_type(kind, ops), ops)
    keep.extend(T for _, T, _ in fam)
    return fam, extra


STRUCTURAL = {'parent', 'intersection_of_union_mentioning_parent', 'intersection_of_exclusion',
              'intersection_of_union_of_operands', 'unrelated_wider', 'same_constraints_built_again',
              'clone_with_other_constraints', 'unconstrained'}


def part_e(ctx, exprs, meta):
    rng = ctx.rng
    registry, keep = {}, []

    def tree_of(ops_):
        return ('and', ops_) if ops_ else None

    def expect(ops_, v):
        """None = no exact prediction (outside the typed domain)"""
        t = tree_of(ops_)
        if t is None:
            return True
        if st.wf(t) and st.typed(t, None, v):
            return st.member(t, None, v)
        return None

    def judge(res, exc, kind, t_ops, v, case, what, model):
        """the object an entry point returned must satisfy its own type's constraints, else the call must have
        raised ValueConstraintError; compared with set theory and with the model's constructor"""
        want = expect(t_ops, v)
        if exc is None:
            ctx.stats['e.result.ok'] += 1
            if not isinstance(res, base.SimpleAsn1Type) or not res.isValue:
                ctx.prop_fail('%s returned something that is not a value object' % what, case)
                return
            got = payload_of(res, kind)
            t = registry.get(id(res.subtypeSpec))
            if t is not None and not st.member(t, None, got):
                ctx.prop_fail('%s produced a value object whose own type\'s constraints reject its payload' % what,
                              dict(case, result=got))
            elif want is False:
                ctx.prop_fail('%s accepted a payload the target type\'s constraints reject' % what, dict(case, result=got))
            elif got != v:
                ctx.prop_fail('%s changed the payload' % what, dict(case, result=got))
            out = ('ok', got)
        else:
            out = exc_class(exc)
            ctx.stats['e.result.' + (out if not out.startswith('crash') else 'crash')] += 1
            if want is True:
                ctx.prop_fail('%s refused (%s) a payload the target type admits' % (what, type(exc).__name__), case)
            elif want is False and out != 'EConstraint':
                ctx.prop_fail('%s raised %s instead of ValueConstraintError' % (what, type(exc).__name__), case)
        if model is not None:
            rc = res_coq(out)
            if rc is None:
                ctx.corr_fail('entry point raised an exception the model has no name for', dict(case, impl=out))
            else:
                exprs.append('outcome_eqb %s %s' % (model, rc))
                meta.append(('model and implementation disagree on %s from a value object' % what, dict(case, impl=out), None))

    for t in range(ctx.n(12, 160)):
        kind = ['int', 'int', 'bytes', 'text', 'oid', 'bits'][t % 6]
        for attempt in range(12):
            ops = [st.gen_tree(rng, kind, rng.randrange(1, 3)) for _ in range(rng.choice([1, 1, 2]))]
            probe = st.candidates(rng, ('and', ops), kind, 10)
            if any(st.member(('and', ops), None, x) for x in probe) and not all(st.member(('and', ops), None, x) for x in probe):
                break
        fam, extra = family(rng, kind, ops, keep)
        for label, T, ops_ in fam:
            if ops_:
                registry[id(T.subtypeSpec)] = ('and', ops_)
        ctx.stats['e.families.' + kind] += 1
        # the syntactic relation itself, for the members whose subtypeSpec is an intersection built by its
        # constructor (what Proofs/ConstraintInitializer.v's witnesses are made of): implementation vs model
        for (la, A, a_ops) in fam:
            for (lb, B, b_ops) in fam:
                if la in STRUCTURAL and lb in STRUCTURAL:
                    got = bool(A.isSuperTypeOf(B))
                    ctx.case(('e.super', kind, a_ops, b_ops), la != lb)
                    ctx.stats['e.is_super.%s' % got] += 1
                    exprs.append('Bool.eqb (spec_is_super (spec_of [%s]) (spec_of [%s])) %s' % (
                        ';'.join(map(st.to_coq, a_ops)), ';'.join(map(st.to_coq, b_ops)), coqio.cbool(got)))
                    meta.append(('model and implementation disagree on isSuperTypeOf between related types',
                                 {'part': 'e', 'kind': kind, 'self': la, 'other': lb, 'self_ops': a_ops, 'other_ops': b_ops,
                                  'impl': got}, None))
        allt = ('or', [('and', ops), extra])
        cands = st.candidates(rng, allt, kind, 12)
        parent = fam[0]
        pairs = []
        for q in fam[1:]:
            pairs += [(q, parent), (parent, q)]            # value of the relative into the parent and back
        for _ in range(6):
            a, b = rng.sample(fam, 2)
            pairs.append((a, b))
        extra2 = st.gen_tree(rng, kind, 1)
        for (slabel, S, s_ops), (tlabel, T, t_ops) in pairs:
            members = [x for x in cands if expect(s_ops, x) is True]
            # prefer payloads the target rejects: these are the ones that must not get through
            members.sort(key=lambda x: expect(t_ops, x) is not False)
            for v in members[:3]:
                try:
                    sobj = S.clone(raw_of(v))
                except Exception:
                    ctx.stats['e.source_not_constructible'] += 1
                    continue
                desc = {'part': 'e', 'kind': kind, 'ops': ops, 'extra': extra, 'source': slabel, 'target': tlabel,
                        'source_ops': s_ops, 'target_ops': t_ops, 'value': v}
                ctx.stats['e.pair.%s->%s' % (slabel[:14], tlabel[:14])] += 1
                ctx.stats['e.target_%s' % {True: 'admits', False: 'rejects', None: 'unpredicted'}[expect(t_ops, v)]] += 1
                Tc = stype_coq(kind, t_ops)
                model = '(op_clone %s %s)' % (Tc, st.sval_coq(v))
                entries = [
                    ('clone(obj)', lambda: T.clone(sobj), t_ops, model),
                    ('subtype(obj)', lambda: T.subtype(sobj), t_ops, model),
                    ('class(obj, **readOnly)', lambda: T.__class__(sobj, **T.readOnly), t_ops, model),
                    ('clone(obj, subtypeSpec=same)', lambda: T.clone(sobj, subtypeSpec=T.subtypeSpec), t_ops, model),
                    ('clone(obj, tagSet=same)', lambda: T.clone(sobj, tagSet=T.tagSet), t_ops, model),
                    ('clone(value=obj)', lambda: T.clone(value=sobj), t_ops, model),
                ]
                if isinstance(T.subtypeSpec, C.ConstraintsIntersection):
                    p2 = st.to_pyasn1(extra2)
                    keep.append(p2)
                    entries.append(('subtype(obj, subtypeSpec=more)', lambda: T.subtype(sobj, subtypeSpec=p2), t_ops + [extra2],
                                    '(op_subtype %s NoTag (Some %s) %s)' % (Tc, st.to_coq(extra2), st.sval_coq(v))))
                    entries.append(('subtype(obj, explicitTag)',
                                    lambda: T.subtype(sobj, explicitTag=tag.Tag(tag.tagClassPrivate, tag.tagFormatSimple, 9)),
                                    t_ops, model))
                for what, f, r_ops, mdl in entries:
                    res, exc = run_op(f)
                    if exc is None and isinstance(res, base.Asn1Item):
                        keep.append(res)
                        if r_ops and id(res.subtypeSpec) not in registry:
                            registry[id(res.subtypeSpec)] = ('and', r_ops)
                    ctx.case(('e', what, kind, s_ops, r_ops, v), True)
                    judge(res, exc, kind, r_ops, v, dict(desc, entry=what), what, mdl)
                # component assignment: what ends up in the container is a value object; it has to satisfy the
                # constraints of the type it says it is (whether the slot takes it is isSuperTypeOf's business)
                named = namedtype.NamedTypes(namedtype.NamedType('f', T))
                slots = [
                    ('SequenceOf.setComponentByPosition', lambda: univ.SequenceOf(componentType=T).setComponentByPosition(0, sobj), 0),
                    ('SequenceOf.append', lambda: _do(univ.SequenceOf(componentType=T), lambda c: c.append(sobj)), 0),
                    ('SequenceOf.__setitem__', lambda: _do(univ.SequenceOf(componentType=T), lambda c: c.__setitem__(0, sobj)), 0),
                    ('SequenceOf.extend', lambda: _do(univ.SequenceOf(componentType=T), lambda c: c.extend([sobj])), 0),
                    ('SetOf.setComponentByPosition', lambda: univ.SetOf(componentType=T).setComponentByPosition(0, sobj), 0),
                    ('Sequence.setComponentByName', lambda: univ.Sequence(componentType=named).setComponentByName('f', sobj), 'f'),
                    ('Sequence.setComponentByPosition', lambda: univ.Sequence(componentType=named).setComponentByPosition(0, sobj), 'f'),
                    ('Sequence.__setitem__', lambda: _do(univ.Sequence(componentType=named), lambda c: c.__setitem__('f', sobj)), 'f'),
                    ('Sequence.setComponents', lambda: univ.Sequence(componentType=named).setComponents(f=sobj), 'f'),
                    ('Set.setComponentByName', lambda: univ.Set(componentType=named).setComponentByName('f', sobj), 'f'),
                    # the same slots fed with the bare payload: the declared type's constructor decides
                    ('SequenceOf.append(bare)', lambda: _do(univ.SequenceOf(componentType=T), lambda c: c.append(raw_of(v))), 0),
                    ('Sequence.__setitem__(bare)', lambda: _do(univ.Sequence(componentType=named), lambda c: c.__setitem__('f', raw_of(v))), 'f'),
                ]
                for what, f, key in slots:
                    res, exc = run_op(f)
                    ctx.case(('e.slot', what, kind, s_ops, t_ops, v), True)
                    case = dict(desc, entry=what)
                    if exc is not None:
                        ctx.stats['e.slot.refused'] += 1
                        if what.endswith('(bare)') and expect(t_ops, v) is True:
                            ctx.prop_fail('%s refused a payload the declared type admits' % what, case)
                        continue
                    ctx.stats['e.slot.accepted'] += 1
                    comp = res[key]
                    keep.append(comp)
                    got = payload_of(comp, kind)
                    ctree = registry.get(id(comp.subtypeSpec))
                    if ctree is not None and not st.member(ctree, None, got):
                        ctx.prop_fail('%s stored a value object whose own type\'s constraints reject its payload' % what,
                                      dict(case, result=got))
                    if what.endswith('(bare)') and expect(t_ops, v) is False:
                        ctx.prop_fail('%s accepted a bare payload the declared type rejects' % what, dict(case, result=got))
    ctx.sample({'part': 'e', 'kept_objects': len(keep)})


def _do(container, f):
    f(container)
    return container


# ------------------------------------------------------------------------------------------

def part_f(ctx):
    """A verdict follows the CONTENT, not the history: records with a component-presence constraint on an OPTIONAL
    constructed member, whose inner object is reached by reference and changed directly (append / assignment / clear on
    the member, never through the record) between two uses of the record.  After every step the record must be accepted
    or refused by every encoder exactly like a record built afresh with the same content, and give the same octets."""
    from pyasn1.type import namedtype as _nt
    encs = [('ber', ber_enc), ('cer', cer_enc), ('der', der_enc)]
    def mk(cls, pattern):
        consts = [(nm, C.ComponentPresentConstraint() if w == 'P' else C.ComponentAbsentConstraint()) for nm, w in zip(('items', 'sub'), pattern) if w != '-']
        return cls(componentType=_nt.NamedTypes(
            _nt.NamedType('k', univ.Integer()),
            _nt.OptionalNamedType('items', univ.SequenceOf(componentType=univ.Integer())),
            _nt.OptionalNamedType('sub', univ.Sequence(componentType=_nt.NamedTypes(_nt.OptionalNamedType('x', univ.Integer()), _nt.OptionalNamedType('y', univ.OctetString())))))
        ).subtype(subtypeSpec=C.WithComponentsConstraint(*consts))
    def outcome(v):
        outs = []
        for name, enc in encs:
            try: outs.append((name, 'ok', bytes(enc.encode(v)).hex()))
            except error.PyAsn1Error as e: outs.append((name, 'refused', ''))
            except Exception as e: outs.append((name, 'raised ' + type(e).__name__, ''))
        return outs
    steps_all = [[('items.append', 7)], [('items.append', 7), ('items.append', 8)], [('sub.x', 3)], [('items.append', 1), ('sub.x', 2)],
                 [('sub.x', 3), ('items.append', 7)], [('items.append', 5), ('items.clear', None)], [('sub.y', b'q'), ('sub.x', 1)]]
    for cls in (univ.Sequence, univ.Set):
        for pattern in ('A-', 'P-', '-A', '-P', 'AA', 'PA', 'AP', 'PP'):
            for steps in steps_all:
                for use in ('encode', 'str', 'isInconsistent'):
                    T = mk(cls, pattern)
                    live = T.clone(); live['k'] = 1
                    items, sub = live['items'], None        # a reference; `sub` is fetched when first edited (a read of an all-OPTIONAL SEQUENCE member makes BER write it as present and empty: that is not this property's subject)
                    fresh_content = {'items': None, 'sub': {}}
                    history = []
                    def fresh():
                        f = T.clone(); f['k'] = 1
                        if fresh_content['items'] is not None:
                            f['items'].clear(); f['items'].extend(fresh_content['items'])
                        for nm, val in fresh_content['sub'].items():
                            f['sub'][nm] = val
                        return f
                    for stepno, (op, arg) in enumerate([('nothing', None)] + steps):
                        if op == 'items.append': items.append(arg); fresh_content['items'] = (fresh_content['items'] or []) + [arg]
                        elif op == 'items.clear': items.clear(); fresh_content['items'] = []
                        elif op.startswith('sub.'):
                            if sub is None: sub = live['sub']
                            sub[op[4:]] = arg; fresh_content['sub'][op[4:]] = arg
                        history.append(op)
                        # a use of the record in between (what a cached verdict would be computed by)
                        if use == 'str':
                            try: str(live)
                            except Exception: pass
                        elif use == 'isInconsistent':
                            try: bool(live.isInconsistent)
                            except Exception: pass
                        got, want = outcome(live), outcome(fresh())
                        ctx.case(('verdict-follows-content', cls.__name__, pattern, tuple(history), use), True)
                        ctx.stats['f: record verdicts after in-place edits of a member'] += 1
                        if got != want:
                            ctx.prop_fail('a record edited through a reference to its member is judged differently from a record built afresh with the same content',
                                          {'outer': cls.__name__, 'constraint': 'WITH COMPONENTS items:%s sub:%s' % tuple(pattern), 'history': list(history),
                                           'use_between': use, 'live': got, 'fresh': want})
                            break


def run(ctx):
    ctx.rule = ('(a) expression trees of depth 1..4 over all 12 public constraint classes, built per value kind '
                '(int, bytes, text, oid, bit string, record/list) with a share of kind-mixing and of plain-value '
                'ContainedSubtype operands, each applied to candidates at every mentioned boundary -1/0/+1, sizes -1/0/+1, '
                'alphabet members/non-members, every presence pattern; (b) subtype() chains of 1..4 steps with no / explicit / '
                'implicit tags; (c) all dunders, clone, subtype, BER decode on boundary operands; (d) ber/cer/der encode of '
                'SEQUENCE OF / SET OF / SEQUENCE / SET around every boundary; (e) value objects of related types (unions / '
                'intersections / exclusions around the parent\'s spec or operands, subtype()/clone() derivations, wider and '
                'unconstrained types) as initializers of constructor, clone, subtype and of SEQUENCE [OF] / SET [OF] slots, '
                'preferring payloads the target rejects. non-trivial = depth >= 2 tree, a pair of distinct '
                'chain members, or any operation')
    exprs, meta = [], []
    part_a(ctx, exprs, meta)
    part_b(ctx, exprs, meta)
    part_c(ctx, exprs, meta)
    part_d(ctx, exprs, meta)
    part_e(ctx, exprs, meta)
    part_f(ctx)
    ctx.stats['coq_evaluations'] = len(exprs)
    for i in core.coq_bools('c14', IMPORTS, exprs, shard=400):
        what, case, fid = meta[i]
        ctx.corr_fail(what, dict(case, coq=exprs[i]), finding=fid)


def replay(data):
    import pprint
    case = _retuple(data.get('case', data))
    print('what:', data.get('what'))
    pprint.pprint(case)
    if 'coq' in case:
        print('model says (false = disagrees with the recorded implementation outcome):',
              core.coq_show(IMPORTS, case['coq']))
    part = case.get('part')
    if part == 'a':
        c, idx, x = case['tree'], case.get('idx'), case['value']
        print('implementation now:', st.impl_verdict(st.to_pyasn1(c), x, idx, case.get('wrapped', False)))
        print('set theory: member =', st.member(c, idx, x), ' wf =', st.wf(c), ' typed =', st.typed(c, idx, x))
        print('model:', core.coq_show(IMPORTS, 'ceval %s %s %s' % (st.to_coq(c), st.idx_coq(idx), st.cval_coq(x))))
    elif part == 'b':
        kind, ops0, steps = case['kind'], case['ops0'], case['steps']
        Ts, cons = build_chain(kind, ops0, steps)
        print('isSuperTypeOf matrix (row i = ancestor, column j), implementation now:')
        for i in range(len(Ts)):
            print('  ', i, [bool(Ts[i].isSuperTypeOf(Ts[j])) for j in range(len(Ts))], Ts[i].subtypeSpec)
        chain_coq = '(derive_chain %s [%s])' % (stype_coq(kind, ops0), ';'.join(
            '(%s,%s)' % (tagging_coq(tg), 'None' if new is None else '(Some %s)' % st.to_coq(new)) for tg, new in steps))
        print('model:', core.coq_show(IMPORTS, 'let ts := %s in map (fun a => map (type_is_super true true a) ts) ts' % chain_coq))
        if 'value' in case:
            x = case['value']
            for i, T in enumerate(Ts):
                r, obj = construct_outcome(T, x, kind)
                print('   construct T%d(%r): %r; set theory member=%s' % (
                    i, x, r, st.member(('and', cons[i]), None, x) if cons[i] else True))
            if 'j' in case and 'i' in case:
                r, obj = construct_outcome(Ts[case['j']], x, kind)
                if obj is not None:
                    for how in ('seqof', 'seq'):
                        try:
                            if how == 'seqof':
                                univ.SequenceOf(componentType=Ts[case['i']]).setComponentByPosition(0, obj)
                            else:
                                univ.Sequence(componentType=namedtype.NamedTypes(
                                    namedtype.NamedType('f', Ts[case['i']]))).setComponentByName('f', obj)
                            print('   assignment (%s): ok' % how)
                        except Exception as e:
                            print('   assignment (%s): %s %s' % (how, type(e).__name__, str(e)[:120]))
    elif part == 'c' and case.get('op') == 'real':
        print('see harness/props/c14.py part_c REAL probes; now:')
        for spec, val in ((C.ValueRangeConstraint(0, 10), 5.0), (C.SingleValueConstraint(1.5, 2.5), 1.5)):
            res, exc = run_op(lambda: univ.Real(val, subtypeSpec=C.ConstraintsIntersection(spec)))
            print('   Real(%r) under %r: %s' % (val, spec, 'ok' if exc is None else type(exc).__name__ + ': ' + str(exc)[:100]))
    elif part == 'c':
        kind, ops, v = case['kind'], case['ops'], case['value']
        T = make_type(kind, ops)
        r, obj = construct_outcome(T, v, kind)
        print('constructor now: %r; set theory member=%s' % (r, st.member(('and', ops), None, v)))
        print('model:', core.coq_show(IMPORTS, 'op_clone %s %s' % (stype_coq(kind, ops), st.sval_coq(v))))
        if case.get('op') == 'decode':
            res, exc = run_op(lambda: ber_dec.decode(bytes.fromhex(case['substrate']), asn1Spec=T)[0])
            print('decode now:', repr(res) if exc is None else type(exc).__name__ + ': ' + str(exc)[:200])
        elif obj is not None and 'operand' in case and kind == 'int' and case['op'] in dict(INT_BIN):
            f = dict(INT_BIN)[case['op']]
            res, exc = run_op(f, case['operand'][1], obj) if case.get('reflected') else run_op(f, obj, case['operand'][1])
            print('operation now:', repr(res) if exc is None else type(exc).__name__ + ': ' + str(exc)[:200])
    elif part == 'e' and 'source' in case:
        kind, v = case['kind'], case['value']
        fam, _ = family(None, kind, case['ops'], [], extra=case['extra'])
        S = [T for l, T, _ in fam if l == case['source']][0]
        T, t_ops = [(T, o) for l, T, o in fam if l == case['target']][0]
        sobj = S.clone(raw_of(v))
        print('source type %s: %r' % (case['source'], S.subtypeSpec))
        print('target type %s: %r' % (case['target'], T.subtypeSpec))
        print('target.isSuperTypeOf(source) =', bool(T.isSuperTypeOf(S)),
              '; set theory: payload %r in target = %s' % (v, st.member(('and', t_ops), None, v) if t_ops else True))
        for what, f in (('clone(obj)', lambda: T.clone(sobj)), ('subtype(obj)', lambda: T.subtype(sobj)),
                        ('class(obj, **readOnly)', lambda: T.__class__(sobj, **T.readOnly))):
            res, exc = run_op(f)
            print('   %s now: %s' % (what, repr(res) if exc is None else type(exc).__name__))
        print('model:', core.coq_show(IMPORTS, 'op_clone %s %s' % (stype_coq(kind, t_ops), st.sval_coq(v))))
    elif part == 'd':
        tree = case['tree']
        cls = getattr(univ, case['type'])
        if 'size' in case:
            T = cls(componentType=univ.Integer(), subtypeSpec=C.ConstraintsIntersection(st.to_pyasn1(tree)))
            v = T.clone()
            v.extend([i % 3 for i in range(case['size'])]) if case['size'] else v.clear()
            x = ('map', [(('int', i), ('int', i % 3)) for i in range(case['size'])])
        else:
            comps = namedtype.NamedTypes(namedtype.OptionalNamedType('a', univ.Integer()),
                                         namedtype.OptionalNamedType('b', univ.OctetString()),
                                         namedtype.OptionalNamedType('c', char.UTF8String()))
            T = cls(componentType=comps, subtypeSpec=C.ConstraintsIntersection(st.to_pyasn1(tree)))
            x = case['value']
            v = T.clone(); v.clear()
            for k, val in x[1]:
                v[k[1]] = val[1]
        print('set theory: member =', st.member(tree, None, x))
        for name, enc in (('ber', ber_enc), ('cer', cer_enc), ('der', der_enc)):
            res, exc = run_op(enc.encode, v)
            print('   %s encode now: %s' % (name, res.hex() if exc is None else type(exc).__name__ + ': ' + str(exc)[:120]))
        if 'size' not in case:
            for k in FIELDS_ALL:
                v.getComponentByName(k)
            res, exc = run_op(ber_enc.encode, v)
            print('   ber encode after reading every component: %s' % (res.hex() if exc is None else type(exc).__name__))
        if 'substrate' in case:
            res, exc = run_op(lambda: ber_dec.decode(bytes.fromhex(case['substrate']), asn1Spec=T)[0])
            print('   decode now: %s' % ('%d elements' % len(res) if exc is None else type(exc).__name__))
        print('model:', core.coq_show(IMPORTS, 'ceval (CAnd [%s]) None %s' % (st.to_coq(tree), st.cval_coq(x))))
    return 0


def _retuple(x):
    """replays written before core kept tuples: rebuild tuples for the nodes of settheory.py's syntax"""
    if isinstance(x, dict):
        return {k: _retuple(v) for k, v in x.items()}
    if isinstance(x, tuple):
        return tuple(_retuple(e) for e in x)
    if isinstance(x, list):
        if x and isinstance(x[0], str) and x[0] in ('single', 'contained', 'range', 'size', 'alpha', 'present', 'absent',
                                                    'with', 'inner', 'and', 'or', 'excl', 'int', 'bytes', 'text', 'oid',
                                                    'bits', 'map', 'explicit', 'implicit'):
            return tuple(_retuple(e) if i else e for i, e in enumerate(x))
        return [_retuple(e) for e in x]
    return x

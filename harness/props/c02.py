"""C02 - DER and CER round trip; canonical output accepted by every wider decoder; decoders agree."""
from harness import core, codec, universe as U, implrun as I, shrink, gen
from harness.coqio import cbytes

PAIRS = [('DER', 'DER'), ('DER', 'CER'), ('DER', 'BER'), ('CER', 'CER'), ('CER', 'BER')]


def targeted(ctx):
    out = []
    out.append(codec.Case(('setof', ('octs',)), ('list', [('o', b''), ('o', b'\x00'), ('o', b'\x00\x00'), ('o', b'a'), ('o', b'ab'), ('o', b'a\x00')])))
    out.append(codec.Case(('setof', ('int',)), ('list', [('i', 256), ('i', 1), ('i', -1), ('i', 255), ('i', 65536)])))
    # SET OF with equal members (an encoder that sorts through a set or a dict loses them)
    out.append(codec.Case(('setof', ('int',)), ('list', [('i', 7), ('i', 300), ('i', 7)])))
    out.append(codec.Case(('setof', ('octs',)), ('list', [('o', b'a'), ('o', b'a'), ('o', b'a')])))
    out.append(codec.Case(('setof', ('seq', [('req', ('int',)), ('opt', ('bool',))])), ('list', [('rec', [('i', 1), None]), ('rec', [('i', 1), None]), ('rec', [('i', 0), ('b', True)])])))
    out.append(codec.Case(('seq', [('req', ('setof', ('null',)))]), ('rec', [('list', [('null',), ('null',)])])))
    # an empty constructed member after a present OPTIONAL one, and inside SET: empty values must stay on the wire
    for kind in ('seq', 'set'):
        out.append(codec.Case((kind, [('opt', ('int',)), ('req', ('seqof', ('int',))), ('req', ('octs',))]), ('rec', [('i', 2), ('list', []), ('o', b'x')])))
        out.append(codec.Case((kind, [('opt', ('int',)), ('req', ('imp', (128, 0, 1), ('seq', [('opt', ('bool',))]))), ('opt', ('exp', (128, 0, 2), ('null',)))]),
                              ('rec', [('i', 2), ('rec', [None]), ('null',)])))
        out.append(codec.Case((kind, [(('def', ('i', 5)), ('int',)), ('req', ('imp', (64, 0, 9), ('setof', ('octs',)))), ('opt', ('bool',))]),
                              ('rec', [('i', 6), ('list', []), ('b', False)])))
    out.append(codec.Case(('octs',), ('o', b'\x5a' * 2500)))
    out.append(codec.Case(('str', 'UTF8String'), ('chars', 'é' * 700)))
    # long strings under tags: CER cuts them into segments, which carry the universal tag of the string type
    for T0, v0 in ((('bits',), ('bits', tuple((i * 7) % 5 == 0 and 1 or 0 for i in range(8001)))),
                   (('octs',), ('o', bytes([7]) * 1001)), (('str', 'IA5String'), ('chars', 'x' * 1500))):
        for wrap in (lambda t: ('imp', (128, 0, 5), t), lambda t: ('exp', (64, 0, 31), t)):
            out.append(codec.Case(wrap(T0), v0))
    out.append(codec.Case(('seq', [('req', ('exp', (128, 0, 1), ('octs',))), ('opt', ('str', 'IA5String'))]),
                          ('rec', [('o', b'\x01' * 1001), ('chars', 'x' * 1000)])))
    out.append(codec.Case(('set', [(('def', ('i', 5)), ('int',)), ('req', ('exp', (128, 0, 0), ('bool',))), ('opt', ('imp', (64, 0, 3), ('null',)))]),
                          ('rec', [('i', 5), ('b', True), ('null',)])))
    return out


def roundtrip(T, v, enc, dec):
    c = codec.Case(T, v)
    e = I.run_encode(enc, c.obj)
    if e[0] != 'ok': return 'encoder raised %s' % e[1]
    d = I.run_decode(dec, e[1], asn1Spec=c.spec)
    if d[0] != 'ok': return 'decoder raised %s' % d[1]
    if d[2]: return 'non-empty remainder'
    if not U.aval_eq(U.absval_top(d[1], T), c.want): return 'different abstract value'
    return None


def run(ctx):
    ctx.rule = ('random (type, value) from the universe plus targeted cases (strings over 1000 octets, SET OF members sharing prefixes, '
                'DEFAULT equal to default, explicitly tagged primitives) x (encoder, decoder) in {(DER,DER),(DER,CER),(DER,BER),(CER,CER),(CER,BER)}; '
                'agreement of the three decoders on DER, CER and BER-only (indefinite, chunked) encodings of the same value')
    cases = codec.gen_cases(ctx, ctx.n(100, 2000), depth=3, any_der=True) + targeted(ctx)
    ctx.stats['constrained-leaf round trips'] += codec.constrained_leaf_roundtrips(ctx, codecs=('CER', 'DER'))
    cases += codec.leaf_boundary_cases(ctx, every=3 if ctx.tier == 'quick' else 1)
    cases += codec.presence_grid_cases(ctx, every=2 if ctx.tier == 'quick' else 1)
    cases += codec.long_string_cases(ctx, every=2 if ctx.tier == 'quick' else 1)           # zeros / data around the CER segment boundaries
    cases += codec.empty_member_grid_cases(ctx, every=3 if ctx.tier == 'quick' else 1)   # empty / non-empty constructed members around OPTIONAL ones
    cases += codec.tag_grid_cases(ctx, every=2 if ctx.tier == 'quick' else 1)            # every kind under every tagging shape of depth 0..2
    cases += codec.set_order_grid_cases(ctx, every=12 if ctx.tier == 'quick' else 1)     # every ordered pair of differently tagged SET members
    cases += codec.long_tag_set_order_cases(ctx) + codec.mixed_form_sibling_cases(ctx) + codec.default_constructed_cases(ctx) + codec.tagged_choice_in_choice_cases(ctx)   # round 7: long-form tag numbers of differing octet counts; long and short strings under the same tags; constructed DEFAULTs holding constructed members
    # SETs whose members are nested CHOICEs (untagged, or under an EXPLICIT tag of their own) with sibling tags in between
    from harness.props import c17 as _c17
    for T_, v_, _how in _c17.set_choice_cases(ctx, gen.Gen(ctx.rng), ctx.n(8, 150)):
        try: cases.append(codec.Case(T_, v_))
        except Exception: ctx.stats['set_choice_unbuildable'] += 1
    exprs, meta = [], []
    search_only = getattr(ctx, 'search_only', False)
    for c in cases:
        encs = {}
        for enc in ('DER', 'CER'):
            encs[enc] = I.run_encode(enc, c.obj)
            if not search_only:
                exprs.append(codec.enc_expr(enc, True, 0, c, encs[enc])); meta.append({'kind': 'enc', 'codec': enc, 'T': c.T, 'v': c.v})
        for enc, dec in PAIRS:
            ctx.case((enc, dec, c.cty, c.cval), c.T[0] not in ('bool', 'int', 'null'))
            ctx.stats['pair:%s->%s' % (enc, dec)] += 1
            e = encs[enc]
            m = {'kind': 'rt', 'enc': enc, 'dec': dec, 'T': c.T, 'v': c.v}
            fail, d_lit = None, None
            if e[0] != 'ok':
                fail = 'encoder raised %s' % e[1]
            else:
                d = I.run_decode(dec, e[1], asn1Spec=c.spec)
                d_lit, dd = codec.dec_lit(c.T, d)
                if d[0] != 'ok': fail = 'decoder raised %s' % d[1]
                elif d[2]: fail = 'non-empty remainder'
                elif not U.aval_eq(dd[1], c.want): fail = 'different abstract value'
                if not search_only:
                    exprs.append(codec.dec_expr(dec, c, e[1], d_lit)); meta.append(m)
            if fail:
                fid = codec.classify_roundtrip(c.T, c.v, enc, enc == 'CER')
                if fid is None:
                    T2, v2 = shrink.shrink(c.T, c.v, lambda a, b: gen.wf(a) and codec.any_positions_ok(a)
                                           and codec.classify_roundtrip(a, b, enc, enc == 'CER') is None
                                           and roundtrip(a, b, enc, dec) is not None, budget=120)
                    m = dict(m, T=T2, v=v2, original={'T': c.T, 'v': c.v})
                ctx.prop_fail('%s encoding does not decode back under the %s decoder: %s' % (enc, dec, fail), m, finding=fid)
                ctx.stats['prop_fail:' + (fid or 'unexplained')] += 1
        # whenever several decoders accept the same bytes they return the same value
        variants = [encs['DER'], encs['CER'], I.run_encode('BER', c.obj, defMode=False, maxChunkSize=ctx.rng.choice([0, 2, 5]))]
        for e in variants:
            if e[0] != 'ok': continue
            res = {}
            for dec in ('DER', 'CER', 'BER'):
                d = I.run_decode(dec, e[1], asn1Spec=c.spec)
                if d[0] == 'ok':
                    res[dec] = (U.absval_top(d[1], c.T), d[2])
            ctx.case(('agree', e[1][:64], c.cty), len(res) >= 2)
            ks = list(res)
            for a in ks[1:]:
                if not (U.aval_eq(res[ks[0]][0], res[a][0]) or (res[ks[0]][0][0] == 'bad' and res[a][0][0] == 'bad')) or res[ks[0]][1] != res[a][1]:
                    ctx.prop_fail('%s and %s decoders accept the same bytes but return different values' % (ks[0], a),
                                  {'kind': 'agree', 'T': c.T, 'v': c.v, 'bytes': e[1].hex()[:600]})
    ctx.sample({'type': cases[0].T, 'value': cases[0].v})
    if not search_only:
        codes = core.coq_codes('c02', 'Model.Enc Model.Dec Model.Obs', exprs)
        for i, cd in codes.items():
            if cd == 2: ctx.stats['model_declines'] += 1
            else: ctx.corr_fail('model and implementation disagree (%s)' % meta[i]['kind'], meta[i])


def replay(data):
    m = data.get('case', data)
    print('type :', m['T']); print('value:', m['v'])
    for enc, dec in PAIRS:
        print(enc, '->', dec, ':', roundtrip(m['T'], m['v'], enc, dec) or 'holds')
    return 0

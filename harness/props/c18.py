"""C18 - open types (ANY DEFINED BY) resolve by governing value and round-trip.

A case = an "open record" (SEQUENCE/SET with a governing INTEGER/OID member and an ANY, tagged ANY,
or SEQUENCE OF/SET OF ANY member carrying an OpenType map), a governing value, typed inner value(s),
an optional caller override map; evaluated under {BER def, BER indef, CER, DER} x {decodeOpenTypes}
x {openTypes override absent/present}.

The governing member is mandatory, DEFAULT or OPTIONAL.  The governing value of a record (`case['gov']`)
is the member's value when it has one, the declared default when a DEFAULT member is left unset (or set
to a value equal to the default: either way every codec leaves it out of the encoding), and None when an
OPTIONAL member is left out.  The expectation follows the specification (Coq: Model/OpenTypeDef.v
expected_type): the open member is resolved to the mapped type iff resolution is on and the governing
value - explicit or defaulted - is in the map in force; otherwise it holds the complete encoding.  A
record without a governing value is outside the property's quantifier when resolution is on (the decoder
raises; only the correspondence with the model is checked there); with resolution off it must stay raw.

The declared type map is a live object (OpenType stores the caller's dict by reference): a case carries the
dict's content when the type is defined (`map0`, or None for OpenType(name) without a map), a history of
writes to the caller's dict (`map_ops`: ('set', g, T) registers or replaces, ('del', g) removes) done after
the type definition or between encoding and decoding (`ops_when`), and optionally two OpenType objects made
over the same dict at different moments (`share` = which of them the record uses).  The expectation is
computed from the dict's content AT DECODE TIME (map_at_decode; Coq: Model/OpenTypeMap.map_now);
`case['map']` is that content."""
from harness import core, codec, universe as U, implrun as I, gen
from harness.coqio import cbool, cbytes, clist, cnat
from harness.gen import base_desc
core.use_repo()
from pyasn1.type import univ, namedtype, opentype, base

MODES = [('BER', True), ('BER', False), ('CER', None), ('DER', None)]
IMPORTS = 'Model.Enc Model.Dec Model.Obs Model.OpenType Model.OpenTypeDef Model.OpenTypeMap'
UNIV_NUM = {'bool': 1, 'int': 2, 'bits': 3, 'octs': 4, 'null': 5, 'oid': 6, 'real': 9, 'enum': 10,
            'seq': 16, 'seqof': 16, 'set': 17, 'setof': 17}


# ---------------------------------------------------------------------------------------------
# descriptors

def tagset(T):
    """(class, number) of every tag of the type's tag set, innermost first (Tag.__eq__ ignores the format)"""
    k = T[0]
    if k == 'imp':
        ts = tagset(T[2])
        return (ts[:-1] if ts else []) + [(T[1][0], T[1][2])]
    if k == 'exp':
        return tagset(T[2]) + [(T[1][0], T[1][2])]
    if k in ('choice', 'any'):
        return []
    if k == 'str':
        return [(0, U.STR_TYPES[T[1]][1])]
    return [(0, UNIV_NUM[k])]


def is_list_field(ft):
    return base_desc(ft)[0] in ('seqof', 'setof')


def any_type_of(ft):
    """the (possibly tagged) ANY type that wraps an inner value in this member"""
    return base_desc(ft)[1] if is_list_field(ft) else ft


def same_type(anyT, innerT):
    """the encoder's test for "this member already holds an ANY": an ANY value with the member's tags"""
    return base_desc(innerT)[0] == 'any' and tagset(anyT) == tagset(innerT)


def f50_applies(case):
    """F50: a typed inner value whose tag set equals the tag set of the tagged ANY that should wrap it"""
    a = any_type_of(case['fields'][case['oi']][1])
    ts = tagset(a)
    return bool(ts) and any(base_desc(T)[0] != 'any' and tagset(T) == ts for T, _ in case['inner'])


def f51_applies(case, cname):
    """F51: SET OF/SEQUENCE OF tagged ANY member of a SET under CER/DER: elements are not wrapped"""
    ft = case['fields'][case['oi']][1]
    return (case['outer'] == 'set' and cname in ('CER', 'DER') and is_list_field(ft) and bool(tagset(any_type_of(ft)))
            and any(not same_type(any_type_of(ft), T) for T, _ in case['inner']))


def gov_key(g):
    return g[1] if g[0] == 'i' else univ.ObjectIdentifier(tuple(g[1]))


def is_def(p):
    return isinstance(p, (tuple, list)) and p[0] == 'def'


def gov_presence(case):
    p = case['fields'][case['gi']][0]
    return 'def' if is_def(p) else p


def effective_gov(case):
    """the governing value of the record by the specification (twin of Coq effective_gov): the member's
    value, else the declared default of a DEFAULT member, else none"""
    p = case['fields'][case['gi']][0]
    fv = case['vals'][case['gi']]
    if fv is not None:
        return tuple(fv)
    if is_def(p):
        return tuple(p[1])
    return None


def gov_on_wire(case):
    """is the governing member part of the encoding (DEFAULT: only when the value differs from the default)"""
    p = case['fields'][case['gi']][0]
    fv = case['vals'][case['gi']]
    if fv is None:
        return False
    return not (is_def(p) and tuple(p[1]) == tuple(fv))


def lookup(m, g):
    for k, T in (m or []):
        if k == g:
            return T
    return None


def outer_desc(case):
    return (case['outer'], list(case['fields']))


# ---------------------------------------------------------------------------------------------
# pyasn1 objects through the public API

def map_history(case):
    """(content of the caller's dict when the type is defined - None: no dict given -, writes done afterwards)"""
    if 'map0' in case:
        m0 = case['map0']
        return (None if m0 is None else [(tuple(g), T) for g, T in m0]), [tuple(o) for o in case.get('map_ops') or []]
    return [(tuple(g), T) for g, T in case['map']], []


def map_step(m, op):
    """twin of Coq map_step: ('set', g, T) registers or replaces, ('del', g) removes"""
    g = tuple(op[1])
    rest = [(k, T) for k, T in m if tuple(k) != g]
    return ([(g, op[2])] + rest) if op[0] == 'set' else rest


def map_at_decode(case):
    """the content of the declared map when the decoder consults it (twin of Coq map_now)"""
    m0, ops = map_history(case)
    m = list(m0 or [])
    for op in ops:
        m = map_step(m, op)
    return m


def same_map(a, b):
    key = lambda m: sorted((repr(tuple(g)), repr(T)) for g, T in m)
    return key(a) == key(b)


class LiveMap(object):
    """the caller's side of the type map: the dict handed to OpenType, the writes still to be done to it"""

    def __init__(self, case):
        m0, ops = map_history(case)
        self.no_dict = m0 is None
        self.d = None if m0 is None else dict((gov_key(g), U.build_type(T)) for g, T in m0)
        self.pending = [] if m0 is None else list(ops)
        self.views = []

    def open_type(self, name):
        ot = opentype.OpenType(name) if self.no_dict else opentype.OpenType(name, self.d)
        self.views.append(ot)
        return ot

    def write(self, n=None):
        """do the next n (default: all remaining) writes, through the caller's own reference to the dict"""
        n = len(self.pending) if n is None else n
        for op in self.pending[:n]:
            if op[0] == 'set':
                self.d[gov_key(op[1])] = U.build_type(op[2])
            else:
                self.d.pop(gov_key(op[1]), None)
        self.pending = self.pending[n:]


def build_spec(case):
    """-> (record type, LiveMap).  With `share` two OpenType objects are made over the one dict, the first at
    once, the second after half of the writes; the record is defined with the one `share` names.  The writes
    left are done by the caller of this function (LiveMap.write) at the moment `ops_when` says."""
    nts = []
    gi, oi = case['gi'], case['oi']
    live = LiveMap(case)
    ot = live.open_type('f%d' % gi)
    if case.get('share') is not None:
        live.write(len(live.pending) // 2)
        ot2 = live.open_type('f%d' % gi)
        if case['share'] == 1:
            ot = ot2
    for i, (p, ft) in enumerate(case['fields']):
        t = U.build_type(ft)
        kw = {}
        if i == oi:
            kw['openType'] = ot
        if is_def(p):
            nts.append(namedtype.DefaultedNamedType('f%d' % i, U.build_value(ft, p[1]), **kw))
        else:
            cls = namedtype.NamedType if p == 'req' else namedtype.OptionalNamedType
            nts.append(cls('f%d' % i, t, **kw))
    return (univ.Sequence if case['outer'] == 'seq' else univ.Set)(componentType=namedtype.NamedTypes(*nts)), live


def build_outer_value(case, spec):
    obj = spec.clone()
    oi = case['oi']
    for i, ((p, ft), fv) in enumerate(zip(case['fields'], case['vals'])):
        if i == oi:
            if not case['present']:
                continue
            if is_list_field(ft):
                lst = obj.getComponentByPosition(i)
                lst.clear()
                for T, v in case['inner']:
                    lst.append(U.build_value(T, v))
            else:
                T, v = case['inner'][0]
                obj.setComponentByPosition(i, U.build_value(T, v))
        elif fv is not None:
            obj.setComponentByPosition(i, U.build_value(ft, fv, spec=spec.componentType[i].asn1Object))
    return obj


def override_dict(ov):
    return dict((gov_key(g), U.build_type(T)) for g, T in ov)


def mode_opts(cname, defm):
    return {'defMode': defm} if cname == 'BER' else {}


def field_obj(obj, i):
    cv = obj._componentValues
    c = cv[i] if (cv is not base.noValue and i < len(cv)) else base.noValue
    if c is base.noValue or c is None or not c.isValue:
        return None
    return c


def octets_of(x):
    try:
        return bytes(x.asOctets()) if isinstance(x, univ.Any) else None
    except Exception:
        return None


# ---------------------------------------------------------------------------------------------
# generation

GOV_INTS = [0, 1, 2, 3, 5, -1, 127, 128, 255, 256, 65536, -129]


def gen_gov(rng, kind):
    if kind == 'i':
        return ('i', rng.choice(GOV_INTS))
    return ('oid', (1, 3, 6, 1, rng.choice([1, 2, 3, 4, 127, 128, 16384])) + ((rng.choice([0, 1, 2 ** 32]),) if rng.random() < .3 else ()))


def gen_inner_type(g, rng, avoid, need_tag):
    """an inner type of the universe (depth <= 2) whose encoding cannot start with a tag in `avoid`"""
    for _ in range(60):
        T = g.ty(depth=rng.choice([0, 1, 1, 2, 2]))
        if not (gen.wf(T) and codec.any_positions_ok(T)):
            continue
        o = gen.outer_tags(T)
        if need_tag and o is None:
            continue
        if o is not None and (o & avoid):
            continue
        return T
    return ('octs',)


def gen_case(ctx, g):
    rng = ctx.rng
    outer = rng.choice(['seq', 'seq', 'set'])
    tagging = rng.choice(['untagged', 'implicit', 'explicit'])
    listkind = rng.choice([None, None, 'seqof', 'setof'])
    atag = (rng.choice([64, 128, 192]), 0, rng.choice([0, 1, 2, 3]))
    anyT = ('any',) if tagging == 'untagged' else (('imp' if tagging == 'implicit' else 'exp'), atag, ('any',))
    oft = (listkind, anyT) if listkind else anyT
    bare_any = tagging == 'untagged' and not listkind
    gkind = rng.choice(['i', 'i', 'oid'])
    gT = ('int',) if gkind == 'i' else ('oid',)
    if rng.random() < .3:
        gT = ('imp', (64, 0, 9), gT)
    # siblings: context tags 20.. so that nothing clashes
    extras = []
    for j in range(rng.choice([0, 0, 1, 2])):
        st = g.simple()
        if st[0] == 'str' and st[1] in ('GeneralizedTime', 'UTCTime'):
            st = ('octs',)
        # next to a bare ANY in a SET only implicit tags: the ANY is the tag map's catch-all and would
        # claim the outer tag of an explicitly tagged sibling (a property of SET decoding, not of open types)
        st = ('imp' if (bare_any and outer == 'set') else rng.choice(['imp', 'exp']), (128, 0, 20 + j), st)
        extras.append(st)
    # order of members: an untagged ANY goes where the decoder can take it (after mandatory members only)
    members = [('gov', gT)] + [('x', e) for e in extras]
    rng.shuffle(members)
    pos = rng.randint(0, len(members))
    members.insert(pos, ('open', oft))
    fields, vals = [], []
    gi = oi = None
    seen_open = False
    # the governing member: mandatory, DEFAULT (presence filled in below, once the value is known) or OPTIONAL
    gpres = rng.choice(['req', 'req', 'req', 'def', 'def', 'def', 'opt'])
    for i, (role, ft) in enumerate(members):
        if role == 'open':
            oi = i
            seen_open = True
            p = 'req' if (bare_any or rng.random() < .75) else 'opt'
            fields.append((p, ft)); vals.append(None)
        elif role == 'gov':
            gi = i
            fields.append((gpres, ft)); vals.append(None)
        else:
            # OPTIONAL members only after a bare ANY cannot precede it (the ANY would be the run's catch-all)
            p = 'opt' if (rng.random() < .4 and (not bare_any or seen_open or outer == 'set') and not (bare_any and outer == 'set')) else 'req'
            fv = None if (p == 'opt' and rng.random() < .5) else g.val(ft)
            fields.append((p, ft)); vals.append(fv)
    # tags the inner encodings must stay away from (SET members are found by tag)
    avoid = set()
    if bare_any and outer == 'set':
        for i, (p, ft) in enumerate(fields):
            if i != oi:
                avoid |= gen.outer_tags(ft)
    # a governing member that may be left out in front of a bare ANY: the ANY is the catch-all of its run
    gov_run = bare_any and outer == 'seq' and gpres != 'req' and gi < oi
    if gov_run:
        avoid |= gen.outer_tags(fields[gi][1])
    need_tag = (bare_any and outer == 'set') or gov_run
    # the default map
    keys = []
    while len(keys) < rng.choice([1, 2, 3, 4]):
        k = gen_gov(rng, gkind)
        if k not in keys:
            keys.append(k)
    dmap = [(k, gen_inner_type(g, rng, avoid, need_tag)) for k in keys]
    kind = rng.choice(['mapped', 'mapped', 'mapped', 'unmapped', 'ov_diff', 'ov_add'])
    fresh = None
    while fresh is None or fresh in keys:
        fresh = gen_gov(rng, gkind)
    ov = None
    if kind == 'mapped':
        gv = rng.choice(keys); Tin = lookup(dmap, gv)
        if rng.random() < .4:
            ov = [(fresh, gen_inner_type(g, rng, avoid, need_tag))]          # an override that does not concern gv
    elif kind == 'unmapped':
        gv = fresh; Tin = gen_inner_type(g, rng, avoid, need_tag)
        if rng.random() < .4:
            other = None
            while other is None or other in keys or other == fresh:
                other = gen_gov(rng, gkind)
            ov = [(other, gen_inner_type(g, rng, avoid, need_tag))]
    elif kind == 'ov_diff':
        gv = rng.choice(keys)
        Tin = None
        for _ in range(20):
            Tin = gen_inner_type(g, rng, avoid, need_tag)
            if Tin != lookup(dmap, gv):
                break
        ov = [(gv, Tin)]
    else:
        gv = fresh; Tin = gen_inner_type(g, rng, avoid, need_tag)
        ov = [(gv, Tin)] + ([(keys[0], gen_inner_type(g, rng, avoid, need_tag))] if rng.random() < .3 else [])
    vals[gi] = gv = gv if gkind == 'i' else ('oid', tuple(gv[1]))
    gform = 'explicit'
    if gpres == 'def':
        if rng.random() < .6:
            # the value equals the default: left unset or set explicitly, never on the wire
            fields[gi] = (('def', gv), fields[gi][1])
            gform = 'default-unset' if rng.random() < .5 else 'default-set'
            if gform == 'default-unset':
                vals[gi] = None
        else:
            # another default (often one the map knows): the explicit value must win
            others = [k for k in keys + [fresh] if k != gv]
            d = rng.choice(others) if (others and rng.random() < .7) else None
            while d is None or d == gv:
                d = gen_gov(rng, gkind)
            fields[gi] = (('def', d), fields[gi][1])
            gform = 'default-differs'
    elif gpres == 'opt' and rng.random() < .6:
        vals[gi] = None
        gform = 'optional-absent'
        kind = 'nogov'
    if listkind:
        inner = [(Tin, g.val(Tin)) for _ in range(rng.choice([0, 1, 1, 2, 3]))]
    else:
        inner = [(Tin, g.val(Tin))]
    present = True
    if fields[oi][0] == 'opt' and rng.random() < .15:
        present = False
    case = {'outer': outer, 'fields': fields, 'vals': vals, 'gi': gi, 'oi': oi, 'map': dmap, 'override': ov,
            'inner': inner, 'present': present, 'kind': kind, 'tagging': tagging, 'list': listkind, 'gform': gform}
    case['gov'] = effective_gov(case)
    gen_history(case, rng, lambda: gen_inner_type(g, rng, avoid, need_tag), [fresh] + [gen_gov(rng, gkind) for _ in range(2)])
    return case


def gen_history(case, rng, other_type, spare_keys):
    """a life of the caller's dict that ends in case['map'] (the content at decode time): defined with that content and
    never touched / defined empty and filled afterwards / defined with other content (entries of other types, entries
    that go away, entries missing) and changed; sometimes two OpenType objects over the one dict"""
    final = [(tuple(k), T) for k, T in case['map']]
    hist = rng.choice(['static', 'static', 'empty-then-filled', 'empty-then-filled', 'changed', 'changed'])
    m0, ops = list(final), []
    if hist == 'empty-then-filled':
        m0 = []
        order = list(final)
        rng.shuffle(order)
        for k, T in order:
            if rng.random() < .25:
                ops.append(('set', k, other_type()))            # registered with another type first, then corrected
            ops.append(('set', k, T))
    elif hist == 'changed':
        m0 = []
        for k, T in final:
            r = rng.random()
            if r < .4:
                m0.append((k, other_type())); ops.append(('set', k, T))         # replaced
            elif r < .6:
                ops.append(('set', k, T))                                       # registered later
            else:
                m0.append((k, T))
        gone = [tuple(k) for k in spare_keys if lookup(final, tuple(k)) is None]
        gone = [k for i, k in enumerate(gone) if k not in gone[:i]]
        for k in gone[:rng.choice([1, 1, 2])]:
            # an entry that is there when the type is defined (the record's own governing value among them, when
            # that is unmapped in the end) and removed afterwards
            T0 = other_type()
            if rng.random() < .5:
                m0.append((k, T0)); ops.append(('del', k))
            else:
                ops.append(('set', k, T0)); ops.append(('del', k))
        rng.shuffle(m0)
    case['map0'], case['map_ops'], case['history'] = m0, ops, hist
    case['ops_when'] = rng.choice(['defined', 'defined', 'encoded']) if ops else 'defined'
    case['share'] = rng.choice([None, None, 0, 1])
    assert same_map(map_at_decode(case), final), (m0, ops, final)


def targeted():
    """cases every run contains: the documented example, each tagging, constructed inner values,
    F01 and F50 classes, ANY passed through"""
    out = []
    seqT = ('seq', [('req', ('int',)), ('opt', ('bool',)), ('req', ('seqof', ('octs',)))])
    seqV = ('rec', [('i', 5), None, ('list', [('o', b'a'), ('o', b'')])])
    chT = ('choice', [('int',), ('imp', (128, 0, 7), ('octs',))])
    dmap = [(('i', 1), ('int',)), (('i', 2), ('octs',)), (('i', 3), seqT), (('i', 4), chT),
            (('i', 5), ('exp', (128, 0, 1), ('int',))), (('i', 6), ('imp', (128, 0, 3), ('int',))),
            (('i', 8), ('setof', ('int',)))]
    inner_of = {1: ('i', 12), 2: ('o', b'quick brown'), 3: seqV, 4: ('ch', 1, ('o', b'xy')), 5: ('i', 5), 6: ('i', 300),
                7: ('any', b'\x04\x01\x07'), 8: ('list', [('i', 256), ('i', 1), ('i', -1)])}
    anys = [('any',), ('imp', (128, 0, 3), ('any',)), ('exp', (128, 0, 3), ('any',))]
    omap = [(('oid', (1, 3, 6, 1, 1)), ('str', 'UTF8String')), (('oid', (1, 3, 6, 1, 2)), seqT)]
    for outer in ('seq', 'set'):
        for a in anys:
            for lk in (None, 'seqof', 'setof'):
                oft = (lk, a) if lk else a
                for gnum in inner_of:
                    if outer == 'set' and a == ('any',) and not lk and gnum in (1, 4):
                        continue            # inner INTEGER would be taken for the governing member of the SET
                    Tin = lookup(dmap, ('i', gnum)) or a        # 7: unmapped, the caller supplies an ANY value of the member's type
                    n = 1 if not lk else 2
                    for ov in (None, [(('i', gnum), ('octs',) if gnum != 2 else ('int',))]):
                        if ov and gnum not in (1, 2):
                            continue
                        T_in, v_in = Tin, inner_of[gnum]
                        kind = 'mapped' if gnum != 7 else 'unmapped'
                        if ov:
                            T_in = ov[0][1]; v_in = ('o', b'ov') if gnum != 2 else ('i', -7); kind = 'ov_diff'
                        if outer == 'set' and a == ('any',) and not lk and ((gen.outer_tags(T_in) or set()) & {(0, 2)}):
                            continue
                        out.append({'outer': outer, 'fields': [('req', ('int',)), ('req', oft)], 'vals': [('i', gnum), None],
                                    'gi': 0, 'oi': 1, 'map': dmap, 'override': ov, 'gov': ('i', gnum),
                                    'inner': [(T_in, v_in)] * n, 'present': True, 'kind': kind,
                                    'tagging': {'any': 'untagged', 'imp': 'implicit', 'exp': 'explicit'}[a[0]], 'list': lk})
    # governing member DEFAULT / OPTIONAL: the value equals the default (left unset, or set: never on the wire),
    # differs from it (on the wire, and wins), the default is unmapped, the OPTIONAL member is left out
    gov_forms = [('default-unset', ('def', ('i', 3)), None, ('i', 3)), ('default-set', ('def', ('i', 3)), ('i', 3), ('i', 3)),
                 ('default-differs', ('def', ('i', 2)), ('i', 3), ('i', 3)), ('default-differs', ('def', ('i', 3)), ('i', 2), ('i', 2)),
                 ('default-unset', ('def', ('i', 7)), None, ('i', 7)), ('optional-absent', 'opt', None, None),
                 ('explicit', 'opt', ('i', 3), ('i', 3))]
    for outer in ('seq', 'set'):
        for a in anys:
            for lk in (None, 'seqof', 'setof'):
                oft = (lk, a) if lk else a
                for gform, gp, gval, geff in gov_forms:
                    for gfirst in (True, False):
                        Tin = lookup(dmap, geff) if geff is not None else None
                        if Tin is None:
                            T_in, v_in, kind = ('octs',), ('o', b'raw'), ('unmapped' if geff is not None else 'nogov')
                        else:
                            T_in, v_in, kind = Tin, inner_of[geff[1]], 'mapped'
                        fields = [(gp, ('int',)), ('req', oft)]
                        vals = [gval, None]
                        if not gfirst:
                            fields.reverse(); vals.reverse()
                        case = {'outer': outer, 'fields': fields, 'vals': vals, 'gi': 0 if gfirst else 1, 'oi': 1 if gfirst else 0,
                                'map': dmap, 'override': None, 'inner': [(T_in, v_in)] * (2 if lk else 1), 'present': True,
                                'kind': kind, 'tagging': {'any': 'untagged', 'imp': 'implicit', 'exp': 'explicit'}[a[0]], 'list': lk,
                                'gform': gform}
                        case['gov'] = effective_gov(case)
                        assert case['gov'] == geff
                        out.append(case)
    # the type map as a live object: empty when the type is defined and filled afterwards (the schema-module pattern),
    # an entry replaced, an entry removed, two OpenType objects over the one dict, no dict at all
    g3 = ('i', 3)
    fill = [('set', k, T) for k, T in dmap]
    histories = [('empty-then-filled', [], fill, None, 'mapped'),
                 ('empty-then-filled', [], fill, 0, 'mapped'), ('empty-then-filled', [], fill, 1, 'mapped'),
                 ('changed', [(k, (T if k != g3 else ('octs',))) for k, T in dmap], [('set', g3, seqT)], None, 'mapped'),
                 ('changed', [(k, T) for k, T in dmap if k != g3], [('set', g3, ('null',)), ('set', g3, seqT)], 1, 'mapped'),
                 ('changed', list(dmap), [('del', g3)], None, 'unmapped'),
                 ('changed', [(g3, seqT)], [('del', g3)], 0, 'unmapped'),
                 ('no-dict', None, [], None, 'ov_add')]
    for outer in ('seq', 'set'):
        for a in anys:
            for lk in (None, 'seqof', 'setof'):
                oft = (lk, a) if lk else a
                for hist, m0, ops, share, kind in histories:
                    for when in (('defined', 'encoded') if ops else ('defined',)):
                        case = {'outer': outer, 'fields': [('req', ('int',)), ('req', oft)], 'vals': [g3, None], 'gi': 0, 'oi': 1,
                                'override': [(g3, seqT)] if kind == 'ov_add' else None, 'present': True, 'kind': kind,
                                'tagging': {'any': 'untagged', 'imp': 'implicit', 'exp': 'explicit'}[a[0]], 'list': lk, 'gform': 'explicit',
                                'map0': m0, 'map_ops': list(ops), 'ops_when': when, 'share': share, 'history': hist}
                        case['map'] = map_at_decode(case)
                        case['inner'] = [((('octs',), ('o', b'raw')) if kind == 'unmapped' else (seqT, seqV))] * (2 if lk else 1)
                        case['gov'] = effective_gov(case)
                        out.append(case)
    # OID-governed with a DEFAULT, caller's map deciding
    omap2 = [(('oid', (1, 3, 6, 1, 1)), ('bits',)), (('oid', (1, 3, 6, 1, 2)), seqT)]
    for gval in (None, ('oid', (1, 3, 6, 1, 1))):
        for ov in (None, [(('oid', (1, 3, 6, 1, 2)), ('octs',))]):
            case = {'outer': 'seq', 'fields': [('req', ('exp', (128, 0, 0), ('any',))), (('def', ('oid', (1, 3, 6, 1, 2))), ('oid',))],
                    'vals': [None, gval], 'gi': 1, 'oi': 0, 'map': omap2, 'override': ov, 'present': True, 'tagging': 'explicit', 'list': None,
                    'gform': 'default-unset' if gval is None else 'default-differs'}
            if gval is None:
                case['inner'] = [(('octs',), ('o', b'ov'))] if ov else [(seqT, seqV)]
                case['kind'] = 'ov_diff' if ov else 'mapped'
            else:
                case['inner'] = [(('bits',), ('bits', (1, 0, 1)))]
                case['kind'] = 'mapped'
            case['gov'] = effective_gov(case)
            out.append(case)
    # OID-governed, governing member after the open one, unmapped value
    for gv, Tin, vin, kind in ((('oid', (1, 3, 6, 1, 2)), seqT, seqV, 'mapped'),
                               (('oid', (1, 3, 6, 1, 1)), ('str', 'UTF8String'), ('chars', 'h\xe9'), 'mapped'),
                               (('oid', (1, 3, 6, 1, 9)), ('null',), ('null',), 'unmapped')):
        out.append({'outer': 'seq', 'fields': [('req', ('exp', (128, 0, 0), ('any',))), ('req', ('oid',))],
                    'vals': [None, gv], 'gi': 1, 'oi': 0, 'map': omap, 'override': None, 'gov': gv,
                    'inner': [(Tin, vin)], 'present': True, 'kind': kind, 'tagging': 'explicit', 'list': None})
    return out


# ---------------------------------------------------------------------------------------------
# one evaluation on the implementation

def want_abs(T, v):
    return U.absval_top(U.build_value(T, v), T)


def evaluate(case, cname, defm, dot, use_ov):
    """run encode + decode on the implementation and judge the property.
    -> dict(enc=..., dec=..., fails=[...], observed=(aval of the record as read) or None, ...)"""
    spec, live = build_spec(case)
    late = case.get('ops_when') == 'encoded'
    if not late:
        live.write()                # the map is filled / changed after the type definition, before any value exists
    res = {'fails': [], 'enc': None, 'impl_lit': None}
    try:
        obj = build_outer_value(case, spec)
    except Exception as e:
        res['unbuildable'] = '%s: %s' % (type(e).__name__, str(e)[:100])
        return res
    mo = mode_opts(cname, defm)
    e = I.run_encode(cname, obj, **mo)
    res['enc'] = e
    if e[0] != 'ok':
        res['fails'].append('encoder raised %s' % e[1])
        return res
    live.write()                    # ... or between encoding and decoding
    declared = map_at_decode(case)  # what the caller's dict holds now, from the history alone
    opts = dict(asn1Spec=spec)
    if dot:
        opts['decodeOpenTypes'] = True
    ov = case['override'] if use_ov else None
    if ov:
        opts['openTypes'] = override_dict(ov)
    d = I.run_decode(cname, e[1], **opts)
    res['dec'] = d
    oi = case['oi']
    p_open, oft = case['fields'][oi]
    resolve_on = dot or bool(ov)
    # the expectation, from the specification alone (Coq twin: Model/OpenTypeDef.expected_type): the governing value
    # of the record - explicit or defaulted - looked up in the caller's map, then in the declared one
    gov = effective_gov(case)
    effT = None
    if resolve_on and gov is not None:
        effT = lookup(ov, gov)
        if effT is None:
            effT = lookup(declared, gov)
    res['effT'] = effT
    if resolve_on and gov is None and case['present']:
        # no governing value at all (OPTIONAL governing member left out): not a case of the property's
        # "forall governing values"; what the decoder does then is compared with the model only
        res['no_expectation'] = True
        res['no_governing_value'] = True
    lst = is_list_field(oft)
    # the type the open member is read against (mirrors the model's answer)
    if effT is not None and case['present']:
        readT = (base_desc(oft)[0], effT) if lst else effT
    else:
        readT = oft
    res['readT'] = readT
    if effT is not None and case['present'] and not all(T == effT for T, _ in case['inner']):
        res['no_expectation'] = True       # the map in force names another type than the value was built with
    if d[0] != 'ok':
        res['fails'].append('decoder raised %s' % d[1])
        res['impl_lit'] = '(Err %s)' % d[1]
        return res
    got = d[1]
    # the record as observed
    fs = []
    for i, (p, ft) in enumerate(case['fields']):
        c = field_obj(got, i)
        if c is None and is_def(p):
            # a DEFAULT member that was not decoded: the record still has a value there; read it as a caller would
            try:
                c = got.getComponentByPosition(i)
                c = c if (c is not None and c is not base.noValue and c.isValue) else None
            except Exception:
                c = None
        if c is None:
            fs.append(None)
        else:
            fs.append(U.absval_top(c, readT if i == oi else ft))
    rec = ('rec', tuple(fs))
    if U.has_bad(rec):
        rec = ('bad', 'inner')
    res['observed'] = rec
    res['impl_lit'] = '(Ok (%s, %s))' % (U.coq_aval(rec), cbytes(d[2]))
    # ---- the property
    if d[2]:
        res['fails'].append('non-empty remainder')
    for i, ((p, ft), fv) in enumerate(zip(case['fields'], case['vals'])):
        if i == oi:
            continue
        w = want_abs(ft, fv) if fv is not None else (want_abs(ft, p[1]) if is_def(p) else None)
        if not (fs[i] is None and w is None) and not (fs[i] is not None and w is not None and U.aval_eq(fs[i], w)):
            res['fails'].append('member %d of the record does not round-trip' % i)
    c = field_obj(got, oi)
    if not case['present']:
        if c is not None:
            res['fails'].append('absent open member came back present')
        return res
    if c is None:
        res['fails'].append('open member came back absent')
        return res
    elems = None
    if lst:
        try:
            elems = [c[k] for k in range(len(c))]
        except Exception:
            res['fails'].append('open member is not a list')
            return res
        if len(elems) != len(case['inner']):
            res['fails'].append('open member has %d elements, %d were encoded' % (len(elems), len(case['inner'])))
            return res
    else:
        elems = [c]
    if effT is not None:
        if not res.get('no_expectation'):
            wants = [want_abs(T, v) for T, v in case['inner']]
            gots = [U.absval_top(x, effT) for x in elems]
            a, b = ('bag' if base_desc(oft)[0] == 'setof' else 'list', tuple(gots)), ('bag' if base_desc(oft)[0] == 'setof' else 'list', tuple(wants))
            if not U.aval_eq(a, b):
                res['fails'].append('resolved open member differs from the inner value')
    else:
        raw_want = []
        for T, v in case['inner']:
            if same_type(any_type_of(oft), T):
                raw_want.append(bytes(v[1]))      # an ANY value of the member's own type is the member's value
                continue
            ie = I.run_encode(cname, U.build_value(T, v), **mo)
            raw_want.append(ie[1] if ie[0] == 'ok' else None)
        raw_got = [octets_of(x) for x in elems]
        if base_desc(oft)[0] == 'setof':
            ok = sorted(raw_got, key=repr) == sorted(raw_want, key=repr)
        else:
            ok = raw_got == raw_want
        if None in raw_got or not ok:
            res['fails'].append('unresolved open member does not hold the complete encoding of the inner value')
    # every OpenType object made over the caller's dict shows the dict's present content
    for ot in live.views:
        try:
            shown = dict(ot.items())
        except Exception:
            shown = None
        want_keys = set(gov_key(g) for g, _ in declared)
        if shown is None or set(shown) != want_keys or (live.d is not None and any(shown[k] is not live.d[k] for k in shown)):
            res['fails'].append("an OpenType object does not show the present content of the caller's type map")
            break
    return res


def classify(case, cname, defm):
    indef = (cname == 'CER') or (cname == 'BER' and not defm)
    if case['present'] and any(codec.f01_applies(T, v, indef) for T, v in case['inner']):
        return 'F01'
    for (p, ft), fv in zip(case['fields'], case['vals']):
        if fv is not None and codec.f01_applies(ft, fv, indef):
            return 'F01'
    if f50_applies(case) and case['present']:
        return 'F50'
    if f51_applies(case, cname) and case['present']:
        return 'F51'
    return None


def tlv_is_indefinite(b):
    """the octets start with an identifier followed by the indefinite-length octet 0x80"""
    b = bytes(b)
    if not b:
        return False
    i = 1
    if b[0] & 0x1f == 0x1f:
        while i < len(b) and b[i] & 0x80:
            i += 1
        i += 1
    return i < len(b) and b[i] == 0x80


def indef_any_payload(case):
    """some ANY value inside an inner value or a sibling is itself an indefinite-length encoding: not DER,
    and the DER decoder refuses it wherever it meets it (no concern of open types)"""
    tv = [(T, v) for T, v in case['inner']] if case['present'] else []
    tv += [(ft, fv) for (p, ft), fv in zip(case['fields'], case['vals']) if fv is not None]
    for T, v in tv:
        for ct, cv, _ in codec.encoded_components(T, v):
            if base_desc(ct)[0] == 'any' and cv[0] == 'any' and tlv_is_indefinite(cv[1]):
                return True
    return False


def f24_class(case, cname):
    """F24 (CER/DER leave out an OPTIONAL constructed component that is present but empty) inside an inner
    value or a sibling, or at the open member itself: an OPTIONAL open member gets ifNotEmpty, so an inner
    value with empty contents is dropped"""
    if cname not in ('CER', 'DER'):
        return False
    for (p, ft), fv in zip(case['fields'], case['vals']):
        if fv is not None and codec.f24a_applies(ft, fv, cname):
            return True
    if not case['present']:
        return False
    if any(codec.f24a_applies(T, v, cname) for T, v in case['inner']):
        return True
    if case['fields'][case['oi']][0] != 'opt':
        return False
    if is_list_field(case['fields'][case['oi']][1]):
        return len(case['inner']) == 0
    T, v = case['inner'][0]
    return codec.emits_nothing(T, v) or (base_desc(T)[0] == 'any' and len(v[1]) == 0)


# ---------------------------------------------------------------------------------------------
# Coq expressions

def coq_gov(g):
    return '(VInt (%d)%%Z)' % g[1] if g[0] == 'i' else '(VOid %s)' % clist(['%d' % a for a in g[1]])


def coq_map(m):
    return clist(['(%s, %s)' % (coq_gov(g), U.coq_ty(T)) for g, T in m]) if m else '(@nil (val * ty))'


def coq_ops(ops):
    return clist(['(MSet %s %s)' % (coq_gov(o[1]), U.coq_ty(o[2])) if o[0] == 'set' else '(MDel %s)' % coq_gov(o[1]) for o in ops]) \
        if ops else '(@nil mop)'


def coq_declared(case):
    """the declared map as the model sees it: the content at definition time and the history (Model/OpenTypeMap.map_now)"""
    m0, ops = map_history(case)
    return '(map_now %s %s)' % (coq_map(m0), coq_ops(ops))


def coq_outer_val(case):
    T = outer_desc(case)
    fs = []
    for i, ((p, ft), fv) in enumerate(zip(case['fields'], case['vals'])):
        fs.append('None' if (fv is None or i == case['oi']) else '(Some %s)' % U.coq_val(ft, fv))
    return '(VRec %s)' % clist(fs)


def coq_inner(case):
    return clist(['(%s, %s)' % (U.coq_ty(T), U.coq_val(T, v)) for T, v in case['inner']]) if case['present'] else '(@nil (ty * val))'


def model_expr_group(case, cname, defm, runs):
    """one Coq expression (a code: 0 agree, 1 disagree, 2 model declines) for every decode variant of a
    (case, codec mode): the literals and the first decoding pass are shared; runs = [(dot, use_ov, res)]"""
    d = 'true' if defm in (True, None) else 'false'
    res0 = runs[0][2]
    lets = ['let T : ty := %s in' % U.coq_ty(outer_desc(case)), 'let dm : omap := %s in' % coq_declared(case),
            'let ov : omap := %s in' % coq_map(case['override'])]
    codes = ['enc_code (enc_open %s %s 0 T %s %s %s %s) %s' % (cname, d, cnat(case['oi']), coq_outer_val(case), cbool(case['present']),
                                                             coq_inner(case), I.coq_res_bytes(res0['enc']))]
    if res0['enc'][0] == 'ok':
        lets.append('let b : bytes := %s in' % cbytes(res0['enc'][1]))
        lets.append('let r := decode %s (Some T) b in' % cname)
        for dot, use_ov, res in runs:
            if res['impl_lit'] is None:
                continue
            codes.append('open_code (dec_open_after_d %s T %s %s dm %s %s b r) %s' % (
                cname, cnat(case['gi']), cnat(case['oi']), 'ov' if use_ov else '(@nil (val * ty))', cbool(dot), res['impl_lit']))
    return '%s worst %s' % (' '.join(lets), clist(codes))


# ---------------------------------------------------------------------------------------------

def variants(case):
    out = [(False, False), (True, False)]
    if case['override']:
        out += [(False, True), (True, True)]
    return out


def nested_open_types(ctx):
    """Open types two levels deep (CMS style): the type a governing value maps to is itself a record with an ANY DEFINED BY
    member (bare, EXPLICIT-tagged, or SET OF / SEQUENCE OF ANY).  With resolution on, every mode of every codec returns the
    fully typed tree - the innermost value included; with resolution off, the outer member holds the complete inner
    encoding.  Checked on the implementation only (the model covers one level)."""
    from pyasn1.type import tag as _tag
    leafs = {1: (univ.Integer(), univ.Integer(-300)), 2: (univ.OctetString(), univ.OctetString(b'leaf')),
             3: (univ.Sequence(componentType=namedtype.NamedTypes(namedtype.NamedType('n', univ.Null()), namedtype.NamedType('i', univ.Integer()))), None)}
    v3 = leafs[3][0].clone(); v3['n'] = ''; v3['i'] = 7
    leafs[3] = (leafs[3][0], v3)
    def mk_inner(member, base_cls):
        return base_cls(componentType=namedtype.NamedTypes(
            namedtype.NamedType('k', univ.Integer()),
            namedtype.NamedType('v', member, openType=opentype.OpenType('k', dict((k, t) for k, (t, _) in leafs.items())))))
    members = [('ANY', univ.Any(), False), ('[2] EXPLICIT ANY', univ.Any().subtype(explicitTag=_tag.Tag(128, 32, 2)), False),
               ('SET OF ANY', univ.SetOf(componentType=univ.Any()), True), ('SEQUENCE OF ANY', univ.SequenceOf(componentType=univ.Any()), True)]
    der = I.ENC['DER']
    for inner_cls in (univ.Sequence, univ.Set):
        for mname, member, is_list in members:
            inner_spec = mk_inner(member, inner_cls)
            for outer_cls in (univ.Sequence, univ.Set):
                for oname, omember in (('ANY', univ.Any()), ('[0] EXPLICIT ANY', univ.Any().subtype(explicitTag=_tag.Tag(128, 32, 0)))):
                    outer_spec = outer_cls(componentType=namedtype.NamedTypes(
                        namedtype.NamedType('id', univ.ObjectIdentifier()),
                        namedtype.NamedType('content', omember, openType=opentype.OpenType('id', {univ.ObjectIdentifier('1.2.3'): inner_spec}))))
                    for k, (lt, lv) in leafs.items():
                        if inner_cls is univ.Set and mname == 'ANY' and k == 1:
                            continue        # a bare ANY holding an INTEGER beside the INTEGER member of a SET: ambiguous by construction
                        iv = inner_spec.clone(); iv['k'] = k
                        leaf_der = der.encode(lv)
                        if is_list:
                            iv['v'].extend([univ.Any(leaf_der), univ.Any(leaf_der)])
                        else:
                            iv['v'] = member.clone(leaf_der)
                        for cname, defm in MODES:
                            kw = mode_opts(cname, defm)
                            inner_enc = I.run_encode(cname, iv, **kw)
                            if inner_enc[0] != 'ok':
                                continue
                            ov = outer_spec.clone(); ov['id'] = '1.2.3'; ov['content'] = omember.clone(inner_enc[1])
                            e = I.run_encode(cname, ov, **kw)
                            if e[0] != 'ok':
                                continue
                            desc = '%s { id OID, content %s } -> %s { k INTEGER, v %s } -> leaf %d' % (outer_cls.__name__, oname, inner_cls.__name__, mname, k)
                            m = {'nested': desc, 'codec': cname, 'defMode': defm, 'bytes': e[1].hex()}
                            ctx.case(('nested-open', desc, cname, defm), True)
                            ctx.stats['nested open types:%s%s' % (cname, '' if defm is None else ('-def' if defm else '-indef'))] += 1
                            d = I.run_decode(cname, e[1], asn1Spec=outer_spec, decodeOpenTypes=True)
                            if d[0] != 'ok' or d[2]:
                                ctx.prop_fail('nested open types, resolution on: decoding raised %s' % (d[1] if d[0] != 'ok' else 'nothing but left octets'), m); continue
                            mid = d[1]['content']
                            if not isinstance(mid, inner_cls) or isinstance(mid, univ.Any):
                                ctx.prop_fail('nested open types, resolution on: the outer member is %s, not the mapped record' % type(mid).__name__, m); continue
                            vals = list(mid['v']) if is_list else [mid['v']]
                            bad = [x for x in vals if type(x) is not type(lt) or isinstance(x, univ.Any)]
                            if bad or len(vals) != (2 if is_list else 1):
                                ctx.prop_fail('nested open types, resolution on: the inner member holds %s where the map of the inner record says %s' % (
                                    ', '.join(type(x).__name__ for x in vals), type(lt).__name__), m); continue
                            if any(der.encode(x) != leaf_der for x in vals):
                                ctx.prop_fail('nested open types, resolution on: the innermost value differs from the one encoded', m); continue
                            raw = I.run_decode(cname, e[1], asn1Spec=outer_spec)
                            if raw[0] != 'ok' or not isinstance(raw[1]['content'], univ.Any) or bytes(raw[1]['content']) != inner_enc[1]:
                                ctx.prop_fail('nested open types, resolution off: the member does not hold the complete inner encoding', m)


def several_open_fields(ctx):
    """Records with TWO or THREE open members, each governed by a member of its own through a map of its own: every
    combination of mapped / unmapped governing values, tagging of the ANYs, outer kind, codec and mode, resolution
    on / off / by a caller's map.  Each member on its own: typed as ITS map says for ITS governing value, or - unmapped
    or resolution off - exactly the complete inner encoding.  (Anything carried over from one member to the next shows
    only here: the grids above have one open member per record.)"""
    import itertools
    from pyasn1.type import tag as _tag
    from pyasn1.codec.ber import encoder as be, decoder as bd
    from pyasn1.codec.cer import encoder as ce, decoder as cd
    from pyasn1.codec.der import encoder as de, decoder as dd
    maps = [{1: univ.Integer(), 2: univ.OctetString()}, {1: univ.OctetString(), 2: univ.Boolean()}, {2: univ.Integer(), 3: univ.Null()}]
    inner = {univ.Integer: univ.Integer(300), univ.OctetString: univ.OctetString(b'hi'), univ.Boolean: univ.Boolean(True), univ.Null: univ.Null('')}
    def anyT(k, n):
        if k == 'exp': return univ.Any().subtype(explicitTag=_tag.Tag(_tag.tagClassContext, _tag.tagFormatConstructed, n))
        return univ.Any().subtype(implicitTag=_tag.Tag(_tag.tagClassContext, _tag.tagFormatSimple, n))
    for cls, k, nf in itertools.product((univ.Sequence, univ.Set), ('exp', 'imp'), (2, 3)):
        nts = []
        for j in range(nf):
            nts.append(namedtype.NamedType('g%d' % j, univ.Integer().subtype(implicitTag=_tag.Tag(_tag.tagClassContext, _tag.tagFormatSimple, 10 + j))))
            nts.append(namedtype.NamedType('v%d' % j, anyT(k, j), openType=opentype.OpenType('g%d' % j, maps[j])))
        T = cls(componentType=namedtype.NamedTypes(*nts))
        for govs in itertools.product((1, 2, 9), repeat=nf):
            for cname, enc, dec, kw in (('BER', be, bd, {}), ('BER', be, bd, {'defMode': False}), ('CER', ce, cd, {}), ('DER', de, dd, {})):
                inners = [inner[type(maps[j].get(govs[j], univ.OctetString()))] for j in range(nf)]
                encs = [bytes(enc.encode(x, **kw)) for x in inners]
                v = T.clone()
                for j in range(nf):
                    v['g%d' % j] = govs[j]; v['v%d' % j] = v['v%d' % j].clone(encs[j])
                data = bytes(enc.encode(v, **kw))
                for how, dkw in (('on', {'decodeOpenTypes': True}), ('off', {}), ('caller-map', {'openTypes': {9: univ.OctetString()}})):
                    ctx.case(('several-open', cls.__name__, k, nf, govs, cname, tuple(kw), how), True)
                    ctx.stats['records with several open members'] += 1
                    m = {'outer': cls.__name__, 'any_tagging': k, 'governing_values': list(govs), 'codec': cname, 'options': kw, 'resolution': how, 'bytes': data.hex()}
                    r = I.run_decode(cname, data, asn1Spec=T, **dkw)
                    if r[0] != 'ok' or r[2]:
                        ctx.prop_fail('record with several open members is not decoded: %s' % (r[2] if r[0] != 'ok' else 'octets left over'), m); continue
                    for j in range(nf):
                        f = r[1]['v%d' % j]
                        want = None
                        if how == 'on': want = maps[j].get(govs[j])
                        elif how == 'caller-map': want = univ.OctetString() if govs[j] == 9 else maps[j].get(govs[j])
                        if want is not None:
                            exp_inner = inner[type(want)] if how != 'caller-map' or govs[j] != 9 else None
                            ok = f.isSameTypeWith(want) and (exp_inner is None or f == exp_inner)
                        else:
                            ok = isinstance(f, univ.Any) and bytes(f) == encs[j]
                        if not ok:
                            ctx.prop_fail('open member %d of a record with %d open members: %s' % (j, nf, 'not the type its own map gives for its own governing value'
                                          if want is not None else 'unmapped / unresolved member does not hold exactly the inner encoding'),
                                          dict(m, member=j, got=repr(f)[:160], inner_encoding=encs[j].hex()))


def run(ctx):
    ctx.rule = ('open records: SEQUENCE/SET with a governing INTEGER or OID member (sometimes tagged; mandatory, DEFAULT with the value equal '
                'to the default - unset or set, never on the wire - or different from it, or OPTIONAL present/left out), 0-2 tagged siblings (some OPTIONAL), and '
                'an open member ANY / [t] IMPLICIT ANY / [t] EXPLICIT ANY / SEQUENCE OF or SET OF of these, mandatory or OPTIONAL; default map of '
                '1-4 governing values to inner types of the universe (depth<=2, constructed ones included); governing value mapped / unmapped / '
                'mapped by the caller to a different type / added by the caller; inner value(s) of the effective type; the declared map is a live dict with a history (as at definition / defined empty then filled / '
                'entries replaced, added, removed; writes after the definition or between encoding and decoding; 1 or 2 OpenType objects over it), expectation from '
                'its content at decode time; x {BER def, BER indef, CER, DER} '
                'x decodeOpenTypes {off,on} x openTypes {absent,present}; plus a fixed grid of targeted cases (every tagging x outer x list kind x '
                'inner kind incl. the F01 and F50 classes); open types two levels deep (the mapped type is itself a record with an ANY DEFINED BY / SET OF / SEQUENCE OF ANY member) in every mode, typed down to the innermost value; non-trivial = resolution on and value mapped, or inner value constructed/tagged')
    search_only = getattr(ctx, 'search_only', False)
    g = gen.Gen(ctx.rng, depth=2, max_fields=3)
    cases = targeted() if ctx.scale == 1 else []
    n = ctx.n(60, 4000)
    tries = 0
    while len(cases) < n + (len(targeted()) if ctx.scale == 1 else 0) and tries < 20 * n:
        tries += 1
        try:
            cases.append(gen_case(ctx, g))
        except Exception:
            ctx.stats['gen_error'] += 1
    exprs, meta = [], []
    for case in cases:
        ctx.stats['outer:' + case['outer']] += 1
        ctx.stats['tagging:' + case['tagging']] += 1
        ctx.stats['field:' + (case['list'] or 'scalar')] += 1
        ctx.stats['kind:' + case['kind']] += 1
        m0_, ops_ = map_history(case)
        ctx.stats['map history:%s%s' % (case.get('history', 'static'), '' if not ops_ else (', writes ' + ('between encoding and decoding' if case.get('ops_when') == 'encoded' else 'after the definition')))] += 1
        ctx.stats['map when defined:%s' % ('no dict' if m0_ is None else ('empty' if not m0_ else 'non-empty'))] += 1
        ctx.stats['OpenType objects over the dict:%s' % ('1' if case.get('share') is None else '2 (record uses #%d)' % case['share'])] += 1
        if any(o[0] == 'del' for o in ops_): ctx.stats['map history has a removal'] += 1
        if lookup(m0_ or [], case['gov']) != lookup(map_at_decode(case), case['gov']) and case['gov'] is not None:
            ctx.stats['governing value mapped differently at definition and at decode time'] += 1
        ctx.stats['gov:' + base_desc(case['fields'][case['gi']][1])[0]] += 1
        ctx.stats['governing member:%s/%s/%s' % (gov_presence(case), case.get('gform', 'explicit'),
                                                 'on the wire' if gov_on_wire(case) else 'not on the wire')] += 1
        for T, _ in case['inner'][:1]:
            ctx.stats['inner:' + base_desc(T)[0]] += 1
        for cname, defm in MODES:
            if cname == 'DER' and indef_any_payload(case):
                ctx.stats['skipped:ANY payload in indefinite form under DER'] += 1
                continue
            if f24_class(case, cname):
                ctx.stats['skipped:F24-class(optional constructed component with empty contents under CER/DER)'] += 1
                continue
            runs = []
            fid = classify(case, cname, defm)
            for dot, use_ov in variants(case):
                m = {'case': case, 'codec': cname, 'defMode': defm, 'decodeOpenTypes': dot, 'use_override': use_ov}
                try:
                    res = evaluate(case, cname, defm, dot, use_ov)
                except Exception as e:
                    ctx.stats['harness_exception:' + type(e).__name__] += 1
                    continue
                if 'unbuildable' in res:
                    ctx.stats['unbuildable'] += 1
                    continue
                nontrivial = (res.get('effT') is not None) or any(base_desc(T)[0] in codec.CONSTRUCTED + ('choice',) or T[0] in ('imp', 'exp') for T, _ in case['inner'])
                ctx.case((repr(case), cname, defm, dot, use_ov), nontrivial)
                ctx.stats['mode:%s%s' % (cname, '' if defm is None else ('-def' if defm else '-indef'))] += 1
                ctx.stats['decode:%s/%s' % ('on' if dot else 'off', 'override' if use_ov else 'no-override')] += 1
                if res.get('effT') is not None: ctx.stats['resolved'] += 1
                else: ctx.stats['raw'] += 1
                if res.get('no_governing_value'):
                    ctx.stats['no-expectation(resolution on, no governing value: OPTIONAL governing member left out)'] += 1
                elif res.get('no_expectation'):
                    ctx.stats['no-expectation(map in force names another type)'] += 1
                if res.get('effT') is not None and not gov_on_wire(case):
                    ctx.stats['resolved by a defaulted governing value'] += 1
                if res['fails'] and not res.get('no_expectation'):
                    ctx.prop_fail('open type: ' + res['fails'][0], m, finding=fid)
                    ctx.stats['prop_fail:' + (fid or 'unexplained')] += 1
                elif res['fails']:
                    ctx.stats['fails-without-expectation'] += 1
                if res['enc'] is not None:
                    runs.append((dot, use_ov, res))
            if runs and not search_only:
                exprs.append(model_expr_group(case, cname, defm, runs))
                meta.append({'case': case, 'codec': cname, 'defMode': defm, 'variants': [(a, b) for a, b, _ in runs],
                             'class': fid})
    nested_open_types(ctx)
    if cases:
        c0 = cases[0]
        ctx.sample({'outer': outer_desc(c0), 'map': c0['map'], 'gov': c0['gov'], 'inner': c0['inner']})
    if not search_only:
        codes = core.coq_codes('c18', IMPORTS, exprs, shard=max(40, len(exprs) // core.NPROC + 1))
        for i, cd in codes.items():
            m = meta[i]
            if cd == 2:
                ctx.stats['model_declines'] += 1
                if hasattr(ctx, 'declined'): ctx.declined.append(m)
            else:
                # what the decoder makes of the malformed octets F01 produces is not this property's business
                ctx.corr_fail('model and implementation disagree on an open record (encoding or one of the decode variants)', m,
                              finding='F01' if m['class'] == 'F01' else None)
    several_open_fields(ctx)


def replay(data):
    m = data.get('case', data)
    if 'correspondence_failures' in data and data['correspondence_failures']:
        m = data['correspondence_failures'][0]['case']
    case = dict(m['case'])
    case['fields'] = [tuple(f) for f in case['fields']]
    cname, defm = m.get('codec', 'BER'), m.get('defMode', True)
    vs = [tuple(v) for v in m['variants']] if 'variants' in m else [(m.get('decodeOpenTypes', True), m.get('use_override', False))]
    print('record  :', outer_desc(case)); print('values  :', case['vals']); print('map     :', case['map'])
    print('governing value (explicit or defaulted):', effective_gov(case), '(on the wire)' if gov_on_wire(case) else '(not on the wire)')
    m0, ops = map_history(case)
    print('map when the type was defined:', m0, '| writes since:', ops, '(%s)' % ('between encoding and decoding' if case.get('ops_when') == 'encoded' else 'after the definition'),
          '| OpenType objects over the dict:', 1 if case.get('share') is None else '2, the record uses #%d' % case['share'])
    print('map at decode time:', map_at_decode(case))
    print('override:', case['override']); print('inner   :', case['inner'])
    print('codec   :', cname, '' if defm is None else ('definite' if defm else 'indefinite'), '(class %s)' % classify(case, cname, defm))
    T = U.coq_ty(outer_desc(case))
    d = 'true' if defm in (True, None) else 'false'
    for k, (dot, use_ov) in enumerate(vs):
        res = evaluate(case, cname, defm, dot, use_ov)
        if k == 0:
            print('encoding:', res['enc'][1].hex() if res['enc'] and res['enc'][0] == 'ok' else res['enc'])
            print('model   :', core.coq_show(IMPORTS, 'enc_open %s %s 0 %s %s %s %s %s' % (
                cname, d, T, cnat(case['oi']), coq_outer_val(case), cbool(case['present']), coq_inner(case))))
        print('--- decodeOpenTypes=%s openTypes=%s' % (dot, case['override'] if use_ov else None))
        print('decoded :', res.get('observed') if res.get('dec') and res['dec'][0] == 'ok' else res.get('dec'))
        print('property:', ('no expectation; ' if res.get('no_expectation') else '') + (str(res['fails']) if res['fails'] else 'holds'))
        if res['enc'] and res['enc'][0] == 'ok':
            print('model   :', core.coq_show(IMPORTS, 'dec_open_d %s %s %s %s %s %s %s %s' % (
                cname, T, cnat(case['gi']), cnat(case['oi']), coq_declared(case), coq_map(case['override'] if use_ov else None),
                cbool(dot), cbytes(res['enc'][1]))))
    return 0

"""C07 - decoding consumes exactly one encoding and preserves what follows."""
from harness import core, codec, universe as U, implrun as I, streams, gen
from harness.coqio import cbytes, cnat


def tails(ctx, other):
    r = ctx.rng
    return [b'', b'\x00', b'\x00\x00', b'\x00\x00\x00\x00', other, bytes(r.randint(0, 255) for _ in range(r.randint(1, 9))),
            b'\xff' * 3, b'\x30\x80']


def base_kind(T):
    while T[0] in ('imp', 'exp'):
        T = T[2]
    return T[0]


def run(ctx):
    ctx.rule = ('valid encodings e (BER definite/indefinite/chunked, CER, DER; incl. encodings ending in end-of-octets) followed by tails '
                '{empty, zeros, another encoding, garbage}: one-shot decode returns (value, tail); streams of n back-to-back encodings: one '
                'object per encoding, position after each = end of that encoding; runs of 400 encodings of every base kind and of CHOICEs through one decoder, on a stream and as SEQUENCE OF elements before a tail; non-trivial = non-empty tail or n > 1')
    search_only = getattr(ctx, 'search_only', False)
    cases = codec.gen_cases(ctx, ctx.n(100, 2000), depth=3)
    # systematic: every base kind (every string and time type, every container kind) under every tagging shape of depth
    # 0..2, each in the indefinite modes (where an end-of-octets marker must follow exactly the indefinite headers)
    grid = codec.tag_grid_cases(ctx, every=2 if ctx.tier == 'quick' else 1)
    forced = {}
    for j, c in enumerate(grid):
        forced[id(c)] = [('CER', True, 0), ('BER', False, 0), ('BER', False, 3)][(j + ctx.seed) % 3]
    cases += grid
    exprs, meta = [], []
    for c in cases:
        mode = forced.get(id(c)) or ctx.rng.choice([('BER', True, 0), ('BER', False, 0), ('BER', False, 3), ('BER', True, 2), ('CER', True, 0), ('DER', True, 0)])
        cdc, defm, chunk = mode
        e = I.run_encode('BER', c.obj, defMode=defm, maxChunkSize=chunk) if cdc == 'BER' else I.run_encode(cdc, c.obj)
        if e[0] != 'ok':
            continue
        base = I.run_decode(cdc, e[1], asn1Spec=c.spec)
        fid = codec.classify_roundtrip(c.T, c.v, cdc, (cdc == 'CER') or not defm)
        if base[0] != 'ok' or base[2] or not U.aval_eq(U.absval_top(base[1], c.T), c.want):
            ctx.stats['not_a_valid_roundtrip:%s' % (fid or 'unexplained')] += 1
            if fid == 'F01' or (base[0] == 'ok' and base[2] and U.aval_eq(U.absval_top(base[1], c.T), c.want)):
                # the value comes back but octets of the encoder's own output are left over: framing, not content
                ctx.prop_fail('decoding an encoding produced by the encoder does not consume exactly that encoding',
                              {'codec': cdc, 'T': c.T, 'v': c.v, 'bytes': e[1].hex()}, finding=fid)
            continue          # round-trip failures as such belong to C01/C02
        other = I.run_encode('DER', c.obj)
        for t in ctx.rng.sample(tails(ctx, other[1] if other[0] == 'ok' else b'\x05\x00'), 4):
            d = I.run_decode(cdc, e[1] + t, asn1Spec=c.spec)
            ctx.case((cdc, e[1], t), bool(t))
            ctx.stats['tail:%s' % ('empty' if not t else 'zeros' if set(t) == {0} else 'other')] += 1
            m = {'codec': cdc, 'T': c.T, 'v': c.v, 'encoding': e[1].hex(), 'tail': t.hex()}
            if d[0] != 'ok':
                ctx.prop_fail('decoding e + tail raised %s' % d[1], m)
            elif d[2] != t:
                ctx.prop_fail('tail not returned unchanged', dict(m, returned=d[2].hex()))
            elif not U.aval_eq(U.absval_top(d[1], c.T), c.want):
                ctx.prop_fail('value changed by what follows the encoding', m)
            if not search_only:
                d_lit, _ = codec.dec_lit(c.T, d)
                exprs.append(codec.dec_expr(cdc, c, e[1] + t, d_lit)); meta.append(m)
        # n back-to-back encodings on a stream
        n = ctx.rng.choice([2, 3, 5])
        data = e[1] * n
        s = streams.Growing(); s.arrive(data); s.close_input()
        ev, out = streams.drive(I.DEC[cdc], s, [], spec=c.spec)
        pos = [x[2] for x in ev if not isinstance(x, str)]
        ctx.case(('stream', cdc, e[1], n), True)
        if out != 'stop' or pos != [len(e[1]) * (i + 1) for i in range(n)]:
            ctx.prop_fail('stream of %d encodings: objects/positions %r, outcome %r' % (n, pos, out),
                          {'codec': cdc, 'T': c.T, 'v': c.v, 'encoding': e[1].hex(), 'n': n})
        # the same stream arriving in pieces, with empty polls in between, on a seekable and on a non-seekable
        # (hence wrapped) non-blocking source: one object per encoding, same values, same positions
        want_vals = [U.absval_top(x[1], c.T) for x in ev if not isinstance(x, str)]
        if out == 'stop' and len(data) <= 4000:
            for seekable in (True, False):
                sizes, left = [], len(data)
                while left > 0:
                    k = min(left, ctx.rng.choice([1, 1, 2, 3, 5, 17, 64, len(e[1])])); sizes.append(k); left -= k
                polls = set(ctx.rng.sample(range(len(sizes)), min(len(sizes), ctx.rng.randint(0, 4))))
                sched = streams.schedule_from_sizes(data, sizes, polls=polls)
                s2 = streams.Growing(seekable=seekable)
                ev2, out2 = streams.drive(I.DEC[cdc], s2, sched, spec=c.spec)
                objs2 = [x for x in ev2 if not isinstance(x, str)]
                ctx.case(('stream-pieces', cdc, e[1], n, seekable, tuple(sizes[:20])), True)
                good = out2 == 'stop' and len(objs2) == n and all(U.aval_eq(U.absval_top(o[1], c.T), w) for o, w in zip(objs2, want_vals))
                if seekable:
                    good = good and [o[2] for o in objs2] == pos
                if not good:
                    ctx.prop_fail('stream of %d encodings arriving in pieces from a %s source: %d objects, outcome %r' % (
                        n, 'seekable' if seekable else 'non-seekable', len(objs2), out2),
                        {'codec': cdc, 'T': c.T, 'v': c.v, 'encoding': e[1].hex(), 'n': n, 'seekable': seekable, 'sizes': sizes[:200], 'polls': sorted(polls)},
                        finding=fid)
    # valid BER forms the encoders never produce (the independent generator's: any mix of length forms, nested and EMPTY
    # string segments, long-form lengths, TRUE as any non-zero octet, ..), each followed by a tail: whenever the decoder
    # returns, what it leaves is exactly the tail
    from harness import x690gen
    segd = lambda tg, parts: b''.join(bytes([tg, len(p)]) + p for p in parts)
    fixed_forms = []
    for tg, T0, val in ((0x24, ('octs',), b'abc'), (0x2c, ('str', 'UTF8String'), b'abc'), (0x36, ('str', 'IA5String'), b'abc'),
                        (0x38, ('str', 'GeneralizedTime'), b'20200101000000Z'), (0x27, ('str', 'ObjectDescriptor'), b'abc')):
        for parts in ([val[:2], b'', val[2:]], [b'', val], [val, b''], [b'', b'', val[:1], val[1:]], [val[:1], b'', b'', val[1:]]):
            for wrap in (lambda x: x, lambda x: bytes([0xa3, 0x80]) + x + b'\x00\x00'):
                TT = T0 if wrap(b'') == b'' else ('exp', (128, 0, 3), T0)
                fixed_forms.append((TT, wrap(bytes([tg, 0x80]) + segd(4, parts) + b'\x00\x00')))
                body = segd(4, parts)
                fixed_forms.append((TT, wrap(bytes([tg, len(body)]) + body)))
                inner = bytes([0x24, 0x80]) + segd(4, parts) + b'\x00\x00'
                fixed_forms.append((TT, wrap(bytes([tg, 0x80]) + inner + b'\x00\x00')))
    other_forms = [(U.build_type(TT), data, TT) for TT, data in fixed_forms]
    for c in cases[:ctx.n(120, 1500)]:
        for _ in range(2):
            try:
                other_forms.append((c.spec, x690gen.encode(ctx.rng, c.T, c.v), c.T))
            except Exception:
                ctx.stats['generator_declines'] += 1
    for spec, data, TT in other_forms:
        for t in (b'', b'\x05\x00', b'\x00\x00', b'\x04\x01c\x00\x00'):
            ctx.case(('other-form', data, t), True)
            ctx.stats['other BER forms + tail'] += 1
            d = I.run_decode('BER', data + t, asn1Spec=spec)
            if d[0] == 'ok' and d[2] != t:
                ctx.prop_fail('a valid BER form followed by a tail: what is left is not the tail', {'T': TT, 'encoding': data.hex(), 'tail': t.hex(), 'returned': d[2].hex()})
    # long runs through ONE decoder: 400 encodings of every base kind and of CHOICEs (untagged / tagged, primitive and
    # constructed alternatives) back to back on a stream, and as the 400 elements of a SEQUENCE OF followed by a tail -
    # nothing a decoder keeps from one object to the next may run out or drift
    runs = [c for c in codec.tag_grid_cases(ctx) if c.T[0] not in ('imp', 'exp')]
    for T_, v_ in ((('choice', [('seqof', ('int',)), ('octs',)]), ('ch', 0, ('list', [('i', 1)]))),
                   (('choice', [('seq', [('req', ('null',))]), ('int',)]), ('ch', 0, ('rec', [('null',)]))),
                   (('exp', (128, 0, 1), ('choice', [('set', [('req', ('bool',))]), ('int',)])), ('ch', 0, ('rec', [('b', True)]))),
                   (('choice', [('choice', [('setof', ('int',)), ('null',)]), ('oid',)]), ('ch', 0, ('ch', 0, ('list', [('i', 2)]))))):
        runs.append(codec.Case(T_, v_))
    N = 400
    for j, c in enumerate(runs):
        if ctx.tier == 'quick' and c.T[0] != 'choice' and base_kind(c.T) != 'choice' and (j + ctx.seed) % 4:
            continue
        for cdc, kw in (('BER', dict(defMode=False)), ('CER', {}), ('DER', {})):
            if codec.f01_applies(c.T, c.v, cdc != 'DER'):
                continue
            e = I.run_encode(cdc, c.obj, **kw)
            if e[0] != 'ok' or not e[1]:
                continue
            s = streams.Growing(); s.arrive(e[1] * N); s.close_input()
            ev, out = streams.drive(I.DEC[cdc], s, [], spec=c.spec)
            pos = [x[2] for x in ev if not isinstance(x, str)]
            ctx.case(('long-run-stream', cdc, c.cty, c.cval), True)
            ctx.stats['long runs of %d objects' % N] += 1
            m = {'codec': cdc, 'T': c.T, 'v': c.v, 'encoding': e[1].hex(), 'n': N}
            if out != 'stop' or pos != [len(e[1]) * (i + 1) for i in range(N)]:
                ctx.prop_fail('stream of %d encodings through one decoder: %d objects, outcome %r' % (N, len(pos), out), m)
                continue
            Tl, vl = ('seqof', c.T), ('list', [c.v] * N)
            try:
                cl = codec.Case(Tl, vl)
            except Exception:
                continue
            el = I.run_encode(cdc, cl.obj, **kw)
            if el[0] != 'ok':
                continue
            tail = b'\x05\x00'
            d = I.run_decode(cdc, el[1] + tail, asn1Spec=cl.spec)
            ctx.case(('long-run-seqof', cdc, c.cty, c.cval), True)
            if d[0] != 'ok':
                ctx.prop_fail('SEQUENCE OF %d elements followed by a tail: decoding raised %s' % (N, d[1]), dict(m, container=True))
            elif d[2] != tail or len(d[1]) != N:
                ctx.prop_fail('SEQUENCE OF %d elements followed by a tail: %d elements, %d octets left' % (N, len(d[1]), len(d[2])), dict(m, container=True))
    # long back-to-back streams from a non-seekable source (beyond the caching wrapper's buffer)
    import io
    from pyasn1.type import univ
    from pyasn1.codec.ber import encoder as benc
    for trial in range(2):
        one = benc.encode(univ.OctetString(bytes([trial + 1]) * ctx.rng.randint(70, 130)))
        n = (io.DEFAULT_BUFFER_SIZE * ctx.rng.choice([1, 2, 3])) // len(one) + ctx.rng.randint(2, 30)
        data = one * n
        for seekable in (True, False):
            s = streams.Growing(seekable=seekable); s.arrive(data); s.close_input()
            ev, out = streams.drive(I.DEC['BER'], s, [])
            objs = [x for x in ev if not isinstance(x, str)]
            ctx.case(('long-stream', len(one), n, seekable), True)
            ok = out == 'stop' and len(objs) == n and all(bytes(o[1]) == bytes(one[2:] if len(one) < 130 else one[3:]) for o in objs)
            if seekable:
                ok = ok and [o[2] for o in objs] == [len(one) * (i + 1) for i in range(n)]
            if not ok:
                ctx.prop_fail('stream of %d back-to-back encodings (%d octets) from a %s source: %d objects, outcome %r' % (
                    n, len(data), 'seekable' if seekable else 'non-seekable', len(objs), out),
                    {'encoding': one.hex(), 'n': n, 'seekable': seekable})
    # real buffered files: back-to-back items, the last inner end-of-octets marker placed at every offset around the
    # reader's buffer boundary (one-shot decode + tail, and the streaming decoder with positions)
    import os as _os, tempfile
    BUF = io.DEFAULT_BUFFER_SIZE
    so = univ.SequenceOf(componentType=univ.OctetString())
    for off in (list(range(BUF - 6, BUF + 7)) if ctx.tier != 'quick' else [BUF - 3, BUF - 2, BUF - 1, BUF, BUF + 1]):
        # 30 80 (04 82 hi lo <n octets>) 00 00 : the marker's first octet sits at file offset `off`
        n = off - 6
        v = so.clone(); v.clear(); v.append(bytes([0x5a]) * n)
        first = benc.encode(v, defMode=False)
        assert first[-2:] == b'\x00\x00' and len(first) - 2 == off, (len(first), off)
        second = benc.encode(univ.Integer(7))
        data = first + second + first
        fd, path = tempfile.mkstemp(dir=core.WORK, prefix='c07_'); _os.close(fd)
        try:
            with open(path, 'wb') as f: f.write(data)
            with open(path, 'rb') as f:
                try:
                    v1, rest = I.DEC['BER'].decode(f, asn1Spec=so)
                    bad = None if (bytes(v1[0]) == bytes([0x5a]) * n and bytes(rest) == data[len(first):]) else 'wrong value or remainder (%d octets)' % len(bytes(rest))
                except Exception as e:
                    bad = '%s: %s' % (type(e).__name__, str(e)[:100])
            ctx.case(('file-eoo', off, 'decode'), True)
            if bad:
                ctx.prop_fail('one-shot decode from a buffered file, end-of-octets at offset %d: %s' % (off, bad), {'offset': off, 'kind': 'file-eoo'})
            with open(path, 'rb') as f:
                try:
                    objs = [(x, f.tell()) for x in I.DEC['BER'].StreamingDecoder(f)]
                    got = [p for _, p in objs]
                    err = None
                except Exception as e:
                    got, err = None, '%s: %s' % (type(e).__name__, str(e)[:100])
            ctx.case(('file-eoo', off, 'stream'), True)
            if got != [len(first), len(first) + len(second), len(data)]:
                ctx.prop_fail('streaming decoder over a buffered file, end-of-octets at offset %d: positions %r %s' % (off, got, err or ''),
                              {'offset': off, 'kind': 'file-eoo-stream'})
        finally:
            _os.unlink(path)
    if meta: ctx.sample(meta[0]); ctx.sample(meta[-1])
    if not search_only:
        codes = core.coq_codes('c07', 'Model.Dec Model.Obs', exprs)
        for i, cd in codes.items():
            if cd == 2: ctx.stats['model_declines'] += 1
            else: ctx.corr_fail('model and implementation disagree on e + tail', meta[i])


def replay(data):
    print(data.get('case', data))
    return 0

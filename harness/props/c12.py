"""C12 - Codec calls are pure: no effect on schemas, inputs, configuration or each other.

(a) value objects before/after encoding (ber in two modes, cer, der, native): deep snapshot, second encode, == results
(b) guiding type objects before/after decoding valid and damaged input; decoded results share no mutable state
(c) histories of codec calls sharing schema objects and the module-level singletons vs the same call on fresh objects
(d) 2..4 suspended streaming decoders stepped in a random interleaving vs each alone
(e) 8 threads x 100 calls on shared objects vs the sequential outcomes (sampled schedules)
(f) samples of (a)-(d) again with debug logging switched on
Correspondence: outcomes of the calls of (c) equal the pure Coq model's outcome for the call in isolation."""
import json, threading
from harness import core, codec, universe as U, implrun as I, streams
from harness.gen import base_desc
from harness.props.c04 import jsonable, any_canonical
from pyasn1 import debug, error
from pyasn1.type import univ, base
from pyasn1.codec.native import encoder as native_enc

noValue = base.noValue
CONSTRUCTED = ('seq', 'set', 'seqof', 'setof', 'choice')


# ---------------------------------------------------------------------------------------------
# snapshots: walk the objects, never __eq__ / prettyPrint

def raw(v):
    if v is noValue:
        return 'noValue'
    if isinstance(v, (bytes, bytearray)):
        return ('b', bytes(v))
    if isinstance(v, tuple):
        return ('t',) + tuple(raw(x) for x in v)
    if isinstance(v, float):
        return ('f', repr(v))
    if isinstance(v, int):
        return ('i', int(v), getattr(v, 'bitLength', None))
    return (type(v).__name__, repr(v))


def tagset_key(ts):
    return tuple((int(t.tagClass), int(t.tagFormat), int(t.tagId)) for t in ts.superTags)


def deep_snap(obj, depth=0):
    """everything a codec could have touched in a value or schema object"""
    if obj is noValue or obj is None:
        return 'noValue'
    head = (type(obj).__name__, tagset_key(obj.tagSet), repr(obj.subtypeSpec))
    if isinstance(obj, univ.SequenceOfAndSetOfBase):
        cv = obj._componentValues
        body = 'noValue' if cv is noValue else tuple((k, deep_snap(c, depth + 1)) for k, c in cv.items())
        return head + ('of', body, deep_snap(obj.componentType, depth + 1))
    if isinstance(obj, univ.SequenceAndSetBase):
        cv = obj._componentValues
        body = 'noValue' if cv is noValue else tuple(deep_snap(c, depth + 1) for c in cv)
        types = tuple((nt.name, nt.isOptional, nt.isDefaulted, deep_snap(nt.asn1Object, depth + 1)) for nt in obj.componentType.namedTypes)
        return head + ('rec', getattr(obj, '_currentIdx', 'n/a'), body, types)
    return head + ('val', raw(obj._value))


def eq_probe(obj, others):
    """results of == / != against fixed other values, by class"""
    out = []
    for o in others:
        try:
            out.append(('ok', bool(obj == o), bool(obj != o)))
        except error.PyAsn1Error:
            out.append(('PyAsn1Error',))
        except Exception as e:  # noqa
            out.append((type(e).__name__,))
    return out


def absent_alloptional(T, v):
    """class of finding F28n: an absent OPTIONAL/DEFAULT-less member whose type is a SEQUENCE/SET with no mandatory member"""
    b = base_desc(T)
    k = b[0]
    if v is None:
        return False
    if k in ('seq', 'set'):
        for (p, ft), fv in zip(b[1], v[1]):
            fb = base_desc(ft)
            if fv is None and p == 'opt' and fb[0] in ('seq', 'set') and all(q != 'req' for q, _ in fb[1]):
                return True
            if absent_alloptional(ft, fv):
                return True
        return False
    if k in ('seqof', 'setof'):
        return any(absent_alloptional(b[1], x) for x in v[1])
    if k == 'choice':
        return absent_alloptional(b[1][v[1]], v[2])
    return False


ENCODERS = [('BER', {}), ('BER', {'defMode': False, 'maxChunkSize': 2}), ('CER', {}), ('DER', {})]


def enc_outcome(r):
    return (r[0], r[1])


def dec_outcome(r, T):
    if r[0] == 'ok':
        return ('ok', U.absval_top(r[1], T), r[2])
    return (r[0], r[1])


def same_dec(a, b):
    if a[0] != b[0]:
        return False
    if a[0] == 'ok':
        return (U.aval_eq(a[1], b[1]) or (a[1][0] == 'bad' and b[1][0] == 'bad')) and a[2] == b[2]
    return a[1] == b[1]


def native(obj):
    try:
        return ('ok', repr(native_enc.encode(obj)))
    except error.PyAsn1Error:
        return ('err', 'PyAsn1Error')
    except Exception as e:  # noqa
        return ('err', type(e).__name__)


# ---------------------------------------------------------------------------------------------

def part_a(ctx, cases, tag=''):
    for c in cases:
        fresh = codec.Case(c.T, c.v)
        others = [codec.Case(c.T, c.v).obj, univ.Integer(5), univ.OctetString(b'a'), [], 7]
        obj = fresh.obj
        snap0, abs0, eq0 = deep_snap(obj), U.absval_top(obj, c.T), eq_probe(obj, others)
        first = {}
        m = {'T': jsonable(c.T), 'v': jsonable(c.v), 'part': 'a' + tag}
        for name, opts in ENCODERS:
            ctx.case(('a' + tag, name, str(opts), c.cty, c.cval), base_desc(c.T)[0] in CONSTRUCTED)
            r1 = I.run_encode(name, obj, **opts)
            r2 = I.run_encode(name, obj, **opts)
            first[(name, str(opts))] = r1
            what = None
            if enc_outcome(r1) != enc_outcome(r2):
                what = 'a second %s encode of the same object gives different bytes' % name
            elif deep_snap(obj) != snap0:
                what = '%s encoding changed the value object' % name
            elif eq_probe(obj, others) != eq0:
                what = '%s encoding changed what == answers' % name
            if what:
                ctx.prop_fail(what, dict(m, codec=name, opts=opts))
        # native encoder: instantiates unassigned OPTIONAL/DEFAULT members (concrete state), the content must stay
        n1 = native(obj)
        n2 = native(obj)
        ctx.case(('a' + tag, 'native', c.cty, c.cval), True)
        fid = 'F28n' if absent_alloptional(c.T, c.v) else None
        what = None
        if n1 != n2:
            what = 'a second native encode gives a different result'
        elif not U.aval_eq(U.absval_top(obj, c.T), abs0) and not (abs0[0] == 'bad'):
            what = 'native encoding changed the abstract content of the value'
        else:
            for name, opts in ENCODERS:
                if enc_outcome(I.run_encode(name, obj, **opts)) != enc_outcome(first[(name, str(opts))]):
                    what = 'native encoding changed the %s encoding of the value' % name
                    break
        if what:
            ctx.prop_fail(what, dict(m, codec='native'), finding=fid)
        elif deep_snap(obj) != snap0:
            ctx.stats['native encode instantiated placeholders (content unchanged)'] += 1


def damaged(rng, e):
    out = []
    if len(e) > 1:
        out.append(e[:rng.randrange(1, len(e))])
    if e:
        i = rng.randrange(len(e))
        out.append(e[:i] + bytes([e[i] ^ (1 << rng.randrange(8))]) + e[i + 1:])
    out.append(e + b'\x00')
    return out


def mutate(obj, rng):
    """change a decoded result through the public API"""
    if isinstance(obj, univ.SequenceOfAndSetOfBase):
        inner = [c for c in obj._componentValues.values()] if obj._componentValues is not noValue else []
        if inner and isinstance(inner[0], base.ConstructedAsn1Type) and rng.random() < 0.5:
            return mutate(inner[0], rng)
        obj.clear()
        return True
    if isinstance(obj, univ.Choice):
        inner = obj.getComponent()
        if isinstance(inner, base.ConstructedAsn1Type) and rng.random() < 0.5:
            return mutate(inner, rng)
        obj.clear()
        return True
    if isinstance(obj, univ.SequenceAndSetBase):
        cv = obj._componentValues
        inner = [c for c in cv if c is not noValue and isinstance(c, base.ConstructedAsn1Type)] if cv is not noValue else []
        if inner and rng.random() < 0.6:
            return mutate(rng.choice(inner), rng)
        obj.clear()
        return True
    return False


def part_b(ctx, cases, tag=''):
    rng = ctx.rng
    for c in cases:
        spec = codec.Case(c.T, c.v).spec
        snap_spec = deep_snap(spec)
        m = {'T': jsonable(c.T), 'v': jsonable(c.v), 'part': 'b' + tag}
        for dec in ('BER', 'CER', 'DER'):
            e = I.run_encode(dec, c.obj) if dec != 'BER' else I.run_encode('BER', c.obj, defMode=rng.random() < 0.5, maxChunkSize=rng.choice([0, 0, 3]))
            if e[0] != 'ok':
                continue
            inputs = [e[1]] + damaged(rng, e[1])
            for data in inputs:
                ctx.case(('b' + tag, dec, data[:48], c.cty), data is not inputs[0])
                ctx.stats['decode input: %s' % ('valid' if data is inputs[0] else 'damaged')] += 1
                I.run_decode(dec, data, asn1Spec=spec)
                if deep_snap(spec) != snap_spec:
                    ctx.prop_fail('%s decoding changed the guiding type object' % dec, dict(m, codec=dec, data=data.hex()[:400]))
                    snap_spec = deep_snap(spec)
            d1 = I.run_decode(dec, e[1], asn1Spec=spec)
            d2 = I.run_decode(dec, e[1], asn1Spec=spec)
            if d1[0] == 'ok' and d2[0] == 'ok':
                s2 = deep_snap(d2[1])
                try:
                    changed = mutate(d1[1], rng)
                except Exception:  # noqa
                    changed = False
                if changed:
                    ctx.stats['aliasing checks'] += 1
                    if deep_snap(spec) != snap_spec:
                        ctx.prop_fail('mutating a decoded result changed the guiding type object', dict(m, codec=dec))
                    if deep_snap(d2[1]) != s2:
                        ctx.prop_fail('mutating a decoded result changed another decoded result', dict(m, codec=dec))


def random_call(rng, cases, pool):
    i = rng.randrange(len(cases))
    if rng.random() < 0.5 or not pool[i]:
        name, opts = rng.choice(ENCODERS)
        return ('enc', i, name, opts)
    dec = rng.choice(['BER', 'CER', 'DER'])
    data = rng.choice(pool[i])
    if rng.random() < 0.25:
        data = rng.choice(damaged(rng, data))
    return ('dec', i, dec, data)


def do_call(call, c):
    if call[0] == 'enc':
        return enc_outcome(I.run_encode(call[2], c.obj, **call[3]))
    return dec_outcome(I.run_decode(call[2], call[3], asn1Spec=c.spec), c.T)


def same_outcome(call, a, b):
    return a == b if call[0] == 'enc' else same_dec(a, b)


def make_pool(cases):
    pool = []
    for c in cases:
        es = []
        for name, opts in ENCODERS:
            r = I.run_encode(name, codec.Case(c.T, c.v).obj, **opts)
            if r[0] == 'ok':
                es.append(r[1])
        pool.append(es)
    return pool


def part_c(ctx, cases, n_calls, exprs, meta, tag=''):
    rng = ctx.rng
    shared = [codec.Case(c.T, c.v) for c in cases]
    pool = make_pool(cases)
    for _ in range(n_calls):
        call = random_call(rng, cases, pool)
        c = cases[call[1]]
        got = do_call(call, shared[call[1]])
        alone = do_call(call, codec.Case(c.T, c.v))
        ctx.case(('c' + tag, call[0], call[2], str(call[3])[:60], c.cty, c.cval), True)
        ctx.stats['history call: ' + call[0]] += 1
        if not same_outcome(call, got, alone):
            ctx.prop_fail('a %s call after a history of calls on shared objects differs from the same call on fresh objects' % call[0],
                          {'T': jsonable(c.T), 'v': jsonable(c.v), 'call': jsonable(call[:1] + call[2:]), 'shared': jsonable(got), 'fresh': jsonable(alone), 'part': 'c' + tag})
        if exprs is not None and len(exprs) < 400:
            if call[0] == 'enc':
                r = I.run_encode(call[2], codec.Case(c.T, c.v).obj, **call[3])
                exprs.append(codec.enc_expr(call[2], call[3].get('defMode', True), call[3].get('maxChunkSize', 0), c, r))
            else:
                d = I.run_decode(call[2], call[3], asn1Spec=c.spec)
                lit, _ = codec.dec_lit(c.T, d)
                exprs.append(codec.dec_expr(call[2], c, call[3], lit))
            meta.append({'T': jsonable(c.T), 'v': jsonable(c.v), 'call': jsonable(call[:1] + call[2:])})


# -- (d) interleaved streaming decoders

def summarize(events, outcome, T):
    return ([e if isinstance(e, str) else ('obj', U.absval_top(e[1], T), e[2]) for e in events],
            outcome if isinstance(outcome, str) else outcome[:2])


def same_summary(a, b):
    if a[1] != b[1] or len(a[0]) != len(b[0]):
        return False
    for x, y in zip(a[0], b[0]):
        if isinstance(x, str) or isinstance(y, str):
            if x != y: return False
        elif not ((U.aval_eq(x[1], y[1]) or (x[1][0] == 'bad' and y[1][0] == 'bad')) and x[2] == y[2]):
            return False
    return True


class Suspended(object):
    """one streaming decoder driven step by step (the loop of streams.drive, one turn at a time)"""

    def __init__(self, dec, spec, sched):
        self.stream = streams.Growing()
        self.sched = list(sched)
        self.it = iter(I.DEC[dec].StreamingDecoder(self.stream, asn1Spec=spec))
        self.events, self.outcome, self.steps = [], None, 0

    def turn(self):
        self.steps += 1
        if self.steps > 5000:
            self.outcome = ('err', '(ECrash RuntimeError)')
            return
        try:
            x = next(self.it)
        except StopIteration:
            self.outcome = 'stop'; return
        except RecursionError:
            self.outcome = ('err', '(ECrash RecursionError)'); return
        except Exception as e:  # noqa
            self.outcome = ('err', I.err_class(e)); return
        if isinstance(x, error.SubstrateUnderrunError) or x is None:
            self.events.append('U' if x is not None else 'N')
            if not self.sched:
                self.outcome = 'exhausted'; return
            ev = self.sched.pop(0)
            if ev[0] == 'arrive': self.stream.arrive(ev[1])
            elif ev[0] == 'close': self.stream.close_input()
        else:
            try: p = self.stream.tell()
            except Exception: p = None  # noqa
            self.events.append(('obj', x, p))


def part_d(ctx, cases, n, tag=''):
    rng = ctx.rng
    usable = []
    for c in cases:
        dec = rng.choice(['BER', 'CER', 'DER'])
        e = I.run_encode(dec, c.obj) if dec != 'BER' else I.run_encode('BER', c.obj, defMode=rng.random() < 0.5)
        if e[0] == 'ok' and e[1] and not codec.f01_applies(c.T, c.v, True):
            usable.append((c, dec, e[1]))
    for _ in range(n):
        if not usable:
            break
        k = rng.randint(2, 4)
        picks = [rng.choice(usable) for _ in range(k)]
        if rng.random() < 0.5:
            picks = [picks[0]] * k                      # the very same guiding type object for all of them
        plans = []
        for c, dec, data in picks:
            stream_data = data * rng.choice([1, 1, 2])
            cuts = sorted(rng.sample(range(1, len(stream_data)), min(len(stream_data) - 1, rng.randint(0, 4)))) if len(stream_data) > 1 else []
            sizes = [b - a for a, b in zip([0] + cuts, cuts + [len(stream_data)])]
            sched = streams.schedule_from_sizes(stream_data, sizes, polls=set(i for i in range(len(sizes)) if rng.random() < 0.2))
            if rng.random() < 0.2:
                sched = sched[:-1]                      # never closed: ends suspended
            plans.append((c, dec, sched))
        shared_spec = {}
        machines = []
        for c, dec, sched in plans:
            spec = shared_spec.setdefault(id(c), c.spec)
            machines.append(Suspended(dec, spec, sched))
        order = []
        live = list(range(k))
        while live:
            j = rng.choice(live)
            order.append(j)
            machines[j].turn()
            if machines[j].outcome is not None:
                live.remove(j)
        ctx.case(('d' + tag, tuple((p[1], p[0].cty, str(p[2])[:80]) for p in plans), tuple(order[:60])), True)
        ctx.stats['interleavings of %d decoders' % k] += 1
        for j, (c, dec, sched) in enumerate(plans):
            alone = Suspended(dec, codec.Case(c.T, c.v).spec, sched)
            while alone.outcome is None:
                alone.turn()
            a = summarize(machines[j].events, machines[j].outcome, c.T)
            b = summarize(alone.events, alone.outcome, c.T)
            if not same_summary(a, b):
                ctx.prop_fail('a suspended streaming decoder interleaved with others yields something else than alone',
                              {'part': 'd' + tag, 'decoder': j, 'codec': dec, 'T': jsonable(c.T), 'schedule': jsonable(sched),
                               'interleaving': order[:200], 'interleaved': jsonable(a), 'alone': jsonable(b)})


def part_e(ctx, cases, threads=8, calls=100):
    rng = ctx.rng
    shared = [codec.Case(c.T, c.v) for c in cases]
    pool = make_pool(cases)
    plans = [[random_call(rng, cases, pool) for _ in range(calls)] for _ in range(threads)]
    expected = [[do_call(call, codec.Case(cases[call[1]].T, cases[call[1]].v)) for call in plan] for plan in plans]
    results = [None] * threads

    def work(t):
        out = []
        for call in plans[t]:
            try:
                out.append(do_call(call, shared[call[1]]))
            except Exception as e:  # noqa
                out.append(('harness-exception', type(e).__name__))
        results[t] = out
    ths = [threading.Thread(target=work, args=(t,)) for t in range(threads)]
    for th in ths: th.start()
    for th in ths: th.join()
    for t in range(threads):
        for call, got, want in zip(plans[t], results[t], expected[t]):
            ctx.case(('e', t, call[0], call[2], str(call[3])[:40], cases[call[1]].cty), True)
            ctx.stats['threaded calls'] += 1
            if not same_outcome(call, got, want):
                c = cases[call[1]]
                ctx.prop_fail('a %s call on another thread differs from the sequential outcome' % call[0],
                              {'part': 'e', 'T': jsonable(c.T), 'v': jsonable(c.v), 'call': jsonable(call[:1] + call[2:]),
                               'threaded': jsonable(got), 'sequential': jsonable(want)})


def run(ctx):
    ctx.rule = ('random (type, value) of the universe (depth<=3): (a) deep snapshot / second encode / == answers around ber (definite, '
                'indefinite chunked), cer, der and native encoding; (b) snapshot of the guiding type around decoding valid, truncated, '
                'bit-flipped and over-long input, aliasing between two decoded results and the type; (c) random histories of encode/decode '
                'calls on shared objects vs the same call on fresh objects, also evaluated in the Coq model; (d) 2..4 suspended streaming '
                'decoders (often sharing one type object) in a random interleaving vs alone; (e) 8 threads x 100 calls on shared objects vs '
                'sequential (the thread schedules are whatever the interpreter produced: sampled, not enumerated); (f) samples of (a)-(d) with '
                'debug logging on')
    quick = ctx.tier != 'thorough'
    cases = codec.gen_cases(ctx, ctx.n(60, 500), depth=3)
    cases = [c for c in cases if c.want[0] != 'bad']
    search_only = getattr(ctx, 'search_only', False)
    exprs, meta = ([], []) if not search_only else (None, None)
    part_a(ctx, cases)
    part_b(ctx, cases)
    part_c(ctx, cases, ctx.n(400, 4000), exprs, meta)
    part_d(ctx, cases, ctx.n(60, 600))
    part_e(ctx, cases[:40] if quick else cases[:120])
    # (f) the same with the debug logger installed, then removed again
    sample = cases[:20] if quick else cases[:100]
    debug.setLogger(debug.Debug('all', printer=lambda *a: None))
    try:
        part_a(ctx, sample, tag='+log')
        part_b(ctx, sample, tag='+log')
        part_c(ctx, sample, ctx.n(100, 600), None, None, tag='+log')
        part_d(ctx, sample, ctx.n(15, 100), tag='+log')
    finally:
        debug.setLogger(0)
    part_c(ctx, sample, ctx.n(50, 300), None, None, tag='+log-off-again')
    ctx.sample({'type': jsonable(cases[0].T), 'value': jsonable(cases[0].v)})
    if exprs:
        codes = core.coq_codes('c12', 'Model.Enc Model.Dec Model.Obs', exprs)
        for i, cd in codes.items():
            if cd == 2:
                ctx.stats['model_declines'] += 1
            else:
                ctx.corr_fail('the pure model and the implementation disagree on a call', meta[i])


def replay(data):
    print(json.dumps(data.get('case', data), indent=1)[:4000])
    return 0

"""C12 - Codec calls are pure: no effect on schemas, inputs, configuration or each other.

(a) value objects before/after encoding (ber in two modes, cer, der, native): deep snapshot, second encode, == results
(b) guiding type objects before/after decoding valid and damaged input; decoded results share no mutable state
(c) histories of codec calls sharing schema objects and the module-level singletons vs the same call on fresh objects
(d) 2..4 suspended streaming decoders stepped in a random interleaving vs each alone
(e) 8 threads x 100 calls on shared objects vs the sequential outcomes (sampled schedules)
(f) samples of (a)-(d) again with debug logging switched on
(h) Python values encoded / natively decoded against shared guiding objects (schema and value objects)
Correspondence: outcomes of the calls of (c) equal the pure Coq model's outcome for the call in isolation."""
import json, threading
from harness import core, codec, gen, universe as U, implrun as I, streams
from harness.gen import base_desc
from harness.props.c04 import jsonable, any_canonical, constructed_default_cases, touch_absent_optionals, has_unassigned_record, safe_eq
from pyasn1 import debug, error
from pyasn1.type import univ, base
from pyasn1.codec.native import encoder as native_enc

noValue = base.noValue
CONSTRUCTED = ('seq', 'set', 'seqof', 'setof', 'choice')


# ---------------------------------------------------------------------------------------------
# snapshots: walk the objects, never __eq__ / prettyPrint

def raw(v):
    if v is noValue:
        return 'noValue'
    if isinstance(v, (bytes, bytearray)):
        return ('b', bytes(v))
    if isinstance(v, tuple):
        return ('t',) + tuple(raw(x) for x in v)
    if isinstance(v, float):
        return ('f', repr(v))
    if isinstance(v, int):
        return ('i', int(v), getattr(v, 'bitLength', None))
    return (type(v).__name__, repr(v))


def tagset_key(ts):
    return tuple((int(t.tagClass), int(t.tagFormat), int(t.tagId)) for t in ts.superTags)


def initializers_key(obj):
    """the record every later clone()/subtype()/decoded value of this object is built from (`readOnly`): which of its
    entries still are the object's live attributes, and the tags it holds.  A call that leaves the object's own tags
    alone but edits this record changes what the object yields from then on."""
    ro = getattr(obj, '_readOnly', None)
    if not isinstance(ro, dict):
        return None
    ts = ro.get('tagSet')
    return (tuple(sorted((k, ro[k] is getattr(obj, k, None)) for k in ro)), tagset_key(ts) if ts is not None else None)


def deep_snap(obj, depth=0):
    """everything a codec could have touched in a value or schema object"""
    if obj is noValue or obj is None:
        return 'noValue'
    head = (type(obj).__name__, tagset_key(obj.tagSet), repr(obj.subtypeSpec), initializers_key(obj))
    if isinstance(obj, univ.SequenceOfAndSetOfBase):
        cv = obj._componentValues
        body = 'noValue' if cv is noValue else tuple((k, deep_snap(c, depth + 1)) for k, c in cv.items())
        return head + ('of', body, deep_snap(obj.componentType, depth + 1))
    if isinstance(obj, univ.SequenceAndSetBase):
        cv = obj._componentValues
        body = 'noValue' if cv is noValue else tuple(deep_snap(c, depth + 1) for c in cv)
        types = tuple((nt.name, nt.isOptional, nt.isDefaulted, deep_snap(nt.asn1Object, depth + 1)) for nt in obj.componentType.namedTypes)
        return head + ('rec', getattr(obj, '_currentIdx', 'n/a'), body, types)
    return head + ('val', raw(obj._value))


def eq_probe(obj, others):
    """results of == / != against fixed other values, by class"""
    out = []
    for o in others:
        try:
            out.append(('ok', bool(obj == o), bool(obj != o)))
        except error.PyAsn1Error:
            out.append(('PyAsn1Error',))
        except Exception as e:  # noqa
            out.append((type(e).__name__,))
    return out


def absent_alloptional(T, v):
    """class of finding F28n: an absent OPTIONAL/DEFAULT-less member whose type is a SEQUENCE/SET with no mandatory member"""
    b = base_desc(T)
    k = b[0]
    if v is None:
        return False
    if k in ('seq', 'set'):
        for (p, ft), fv in zip(b[1], v[1]):
            fb = base_desc(ft)
            if fv is None and p == 'opt' and fb[0] in ('seq', 'set') and all(q != 'req' for q, _ in fb[1]):
                return True
            if absent_alloptional(ft, fv):
                return True
        return False
    if k in ('seqof', 'setof'):
        return any(absent_alloptional(b[1], x) for x in v[1])
    if k == 'choice':
        return absent_alloptional(b[1][v[1]], v[2])
    return False


ENCODERS = [('BER', {}), ('BER', {'defMode': False, 'maxChunkSize': 2}), ('CER', {}), ('DER', {})]


def enc_outcome(r):
    return (r[0], r[1])


def dec_outcome(r, T):
    if r[0] == 'ok':
        return ('ok', U.absval_top(r[1], T), r[2])
    return (r[0], r[1])


def same_dec(a, b):
    if a[0] != b[0]:
        return False
    if a[0] == 'ok':
        return (U.aval_eq(a[1], b[1]) or (a[1][0] == 'bad' and b[1][0] == 'bad')) and a[2] == b[2]
    return a[1] == b[1]


def native(obj):
    try:
        return ('ok', repr(native_enc.encode(obj)))
    except error.PyAsn1Error:
        return ('err', 'PyAsn1Error')
    except Exception as e:  # noqa
        return ('err', type(e).__name__)


# ---------------------------------------------------------------------------------------------

def part_a(ctx, cases, tag=''):
    for c in cases:
        fresh = codec.Case(c.T, c.v)
        others = [codec.Case(c.T, c.v).obj, univ.Integer(5), univ.OctetString(b'a'), [], 7]
        obj = fresh.obj
        snap0, abs0, eq0 = deep_snap(obj), U.absval_top(obj, c.T), eq_probe(obj, others)
        first = {}
        m = {'T': jsonable(c.T), 'v': jsonable(c.v), 'part': 'a' + tag}
        for name, opts in ENCODERS:
            ctx.case(('a' + tag, name, str(opts), c.cty, c.cval), base_desc(c.T)[0] in CONSTRUCTED)
            r1 = I.run_encode(name, obj, **opts)
            r2 = I.run_encode(name, obj, **opts)
            first[(name, str(opts))] = r1
            what = None
            if enc_outcome(r1) != enc_outcome(r2):
                what = 'a second %s encode of the same object gives different bytes' % name
            elif deep_snap(obj) != snap0:
                what = '%s encoding changed the value object' % name
            elif eq_probe(obj, others) != eq0:
                what = '%s encoding changed what == answers' % name
            if what:
                ctx.prop_fail(what, dict(m, codec=name, opts=opts))
        # reads of absent OPTIONAL members (they leave schema placeholders) in between: same bytes, same == answers
        log = []
        twin_eq0 = safe_eq(obj, others[0])
        if touch_absent_optionals(obj, log):
            ctx.stats['values whose absent OPTIONAL members were read before encoding again'] += 1
            for name, opts in ENCODERS:
                if enc_outcome(I.run_encode(name, obj, **opts)) != enc_outcome(first[(name, str(opts))]):
                    ctx.prop_fail('%s encoding differs after absent OPTIONAL members were merely read' % name, dict(m, codec=name, opts=opts, reads=log[:10]))
            fid = 'F20b' if has_unassigned_record(c.T, c.v) else None
            if safe_eq(obj, others[0]) != twin_eq0:
                ctx.prop_fail('== against an identical value answers differently after absent OPTIONAL members were merely read',
                              dict(m, before=jsonable(twin_eq0), after=jsonable(safe_eq(obj, others[0])), reads=log[:10]), finding=fid)
            d = I.run_encode('DER', obj)
            if d[0] == 'ok' and any_canonical(c.T, c.v, 'DER'):
                r = I.run_decode('DER', d[1], asn1Spec=fresh.spec)
                r0 = I.run_decode('DER', d[1], asn1Spec=codec.Case(c.T, c.v).spec)
                if not same_dec(dec_outcome(r, c.T), dec_outcome(r0, c.T)):
                    ctx.prop_fail('decoding with the type object of a value whose members were read differs from decoding with a fresh one', dict(m, reads=log[:10]))
            snap0, eq0 = deep_snap(obj), eq_probe(obj, others)
        # native encoder: instantiates unassigned OPTIONAL/DEFAULT members (concrete state), the content must stay
        n1 = native(obj)
        n2 = native(obj)
        ctx.case(('a' + tag, 'native', c.cty, c.cval), True)
        fid = 'F28n' if absent_alloptional(c.T, c.v) else None
        what = None
        if n1 != n2:
            what = 'a second native encode gives a different result'
        elif not U.aval_eq(U.absval_top(obj, c.T), abs0) and not (abs0[0] == 'bad'):
            what = 'native encoding changed the abstract content of the value'
        else:
            for name, opts in ENCODERS:
                if enc_outcome(I.run_encode(name, obj, **opts)) != enc_outcome(first[(name, str(opts))]):
                    what = 'native encoding changed the %s encoding of the value' % name
                    break
        if what:
            ctx.prop_fail(what, dict(m, codec='native'), finding=fid)
        elif deep_snap(obj) != snap0:
            ctx.stats['native encode instantiated placeholders (content unchanged)'] += 1


def damaged(rng, e):
    out = []
    if len(e) > 1:
        out.append(e[:rng.randrange(1, len(e))])
    if e:
        i = rng.randrange(len(e))
        out.append(e[:i] + bytes([e[i] ^ (1 << rng.randrange(8))]) + e[i + 1:])
    out.append(e + b'\x00')
    return out


def mutate(obj, rng):
    """change a decoded result through the public API"""
    if isinstance(obj, univ.SequenceOfAndSetOfBase):
        inner = [c for c in obj._componentValues.values()] if obj._componentValues is not noValue else []
        if inner and isinstance(inner[0], base.ConstructedAsn1Type) and rng.random() < 0.5:
            return mutate(inner[0], rng)
        obj.clear()
        return True
    if isinstance(obj, univ.Choice):
        inner = obj.getComponent()
        if isinstance(inner, base.ConstructedAsn1Type) and rng.random() < 0.5:
            return mutate(inner, rng)
        obj.clear()
        return True
    if isinstance(obj, univ.SequenceAndSetBase):
        cv = obj._componentValues
        inner = [c for c in cv if c is not noValue and isinstance(c, base.ConstructedAsn1Type)] if cv is not noValue else []
        if inner and rng.random() < 0.6:
            return mutate(rng.choice(inner), rng)
        obj.clear()
        return True
    return False


def part_b(ctx, cases, tag=''):
    rng = ctx.rng
    for c in cases:
        spec = codec.Case(c.T, c.v).spec
        snap_spec = deep_snap(spec)
        m = {'T': jsonable(c.T), 'v': jsonable(c.v), 'part': 'b' + tag}
        for dec in ('BER', 'CER', 'DER'):
            e = I.run_encode(dec, c.obj) if dec != 'BER' else I.run_encode('BER', c.obj, defMode=rng.random() < 0.5, maxChunkSize=rng.choice([0, 0, 3]))
            if e[0] != 'ok':
                continue
            inputs = [e[1]] + damaged(rng, e[1])
            for data in inputs:
                ctx.case(('b' + tag, dec, data[:48], c.cty), data is not inputs[0])
                ctx.stats['decode input: %s' % ('valid' if data is inputs[0] else 'damaged')] += 1
                I.run_decode(dec, data, asn1Spec=spec)
                if deep_snap(spec) != snap_spec:
                    ctx.prop_fail('%s decoding changed the guiding type object' % dec, dict(m, codec=dec, data=data.hex()[:400]))
                    snap_spec = deep_snap(spec)
            d1 = I.run_decode(dec, e[1], asn1Spec=spec)
            d2 = I.run_decode(dec, e[1], asn1Spec=spec)
            if d1[0] == 'ok' and d2[0] == 'ok':
                s2 = deep_snap(d2[1])
                try:
                    changed = mutate(d1[1], rng)
                except Exception:  # noqa
                    changed = False
                if changed:
                    ctx.stats['aliasing checks'] += 1
                    if deep_snap(spec) != snap_spec:
                        ctx.prop_fail('mutating a decoded result changed the guiding type object', dict(m, codec=dec))
                    if deep_snap(d2[1]) != s2:
                        ctx.prop_fail('mutating a decoded result changed another decoded result', dict(m, codec=dec))


def random_call(rng, cases, pool):
    i = rng.randrange(len(cases))
    if rng.random() < 0.5 or not pool[i]:
        name, opts = rng.choice(ENCODERS)
        return ('enc', i, name, opts)
    dec = rng.choice(['BER', 'CER', 'DER'])
    data = rng.choice(pool[i])
    if rng.random() < 0.25:
        data = rng.choice(damaged(rng, data))
    return ('dec', i, dec, data)


def do_call(call, c):
    if call[0] == 'enc':
        return enc_outcome(I.run_encode(call[2], c.obj, **call[3]))
    return dec_outcome(I.run_decode(call[2], call[3], asn1Spec=c.spec), c.T)


def same_outcome(call, a, b):
    return a == b if call[0] == 'enc' else same_dec(a, b)


def make_pool(cases):
    pool = []
    for c in cases:
        es = []
        for name, opts in ENCODERS:
            r = I.run_encode(name, codec.Case(c.T, c.v).obj, **opts)
            if r[0] == 'ok':
                es.append(r[1])
        pool.append(es)
    return pool


def part_c(ctx, cases, n_calls, exprs, meta, tag=''):
    rng = ctx.rng
    shared = [codec.Case(c.T, c.v) for c in cases]
    pool = make_pool(cases)
    for _ in range(n_calls):
        call = random_call(rng, cases, pool)
        c = cases[call[1]]
        got = do_call(call, shared[call[1]])
        alone = do_call(call, codec.Case(c.T, c.v))
        ctx.case(('c' + tag, call[0], call[2], str(call[3])[:60], c.cty, c.cval), True)
        ctx.stats['history call: ' + call[0]] += 1
        if not same_outcome(call, got, alone):
            ctx.prop_fail('a %s call after a history of calls on shared objects differs from the same call on fresh objects' % call[0],
                          {'T': jsonable(c.T), 'v': jsonable(c.v), 'call': jsonable(call[:1] + call[2:]), 'shared': jsonable(got), 'fresh': jsonable(alone), 'part': 'c' + tag})
        if exprs is not None and len(exprs) < 400:
            if call[0] == 'enc':
                r = I.run_encode(call[2], codec.Case(c.T, c.v).obj, **call[3])
                exprs.append(codec.enc_expr(call[2], call[3].get('defMode', True), call[3].get('maxChunkSize', 0), c, r))
            else:
                d = I.run_decode(call[2], call[3], asn1Spec=c.spec)
                lit, _ = codec.dec_lit(c.T, d)
                exprs.append(codec.dec_expr(call[2], c, call[3], lit))
            meta.append({'T': jsonable(c.T), 'v': jsonable(c.v), 'call': jsonable(call[:1] + call[2:])})


# -- (d) interleaved streaming decoders

def summarize(events, outcome, T):
    return ([e if isinstance(e, str) else ('obj', U.absval_top(e[1], T), e[2]) for e in events],
            outcome if isinstance(outcome, str) else outcome[:2])


def same_summary(a, b):
    if a[1] != b[1] or len(a[0]) != len(b[0]):
        return False
    for x, y in zip(a[0], b[0]):
        if isinstance(x, str) or isinstance(y, str):
            if x != y: return False
        elif not ((U.aval_eq(x[1], y[1]) or (x[1][0] == 'bad' and y[1][0] == 'bad')) and x[2] == y[2]):
            return False
    return True


class Suspended(object):
    """one streaming decoder driven step by step (the loop of streams.drive, one turn at a time)"""

    def __init__(self, dec, spec, sched):
        self.stream = streams.Growing()
        self.sched = list(sched)
        self.it = iter(I.DEC[dec].StreamingDecoder(self.stream, asn1Spec=spec))
        self.events, self.outcome, self.steps = [], None, 0

    def turn(self):
        self.steps += 1
        if self.steps > 5000:
            self.outcome = ('err', '(ECrash RuntimeError)')
            return
        try:
            x = next(self.it)
        except StopIteration:
            self.outcome = 'stop'; return
        except RecursionError:
            self.outcome = ('err', '(ECrash RecursionError)'); return
        except Exception as e:  # noqa
            self.outcome = ('err', I.err_class(e)); return
        if isinstance(x, error.SubstrateUnderrunError) or x is None:
            self.events.append('U' if x is not None else 'N')
            if not self.sched:
                self.outcome = 'exhausted'; return
            ev = self.sched.pop(0)
            if ev[0] == 'arrive': self.stream.arrive(ev[1])
            elif ev[0] == 'close': self.stream.close_input()
        else:
            try: p = self.stream.tell()
            except Exception: p = None  # noqa
            self.events.append(('obj', x, p))


def part_d(ctx, cases, n, tag=''):
    rng = ctx.rng
    usable = []
    for c in cases:
        dec = rng.choice(['BER', 'CER', 'DER'])
        e = I.run_encode(dec, c.obj) if dec != 'BER' else I.run_encode('BER', c.obj, defMode=rng.random() < 0.5)
        if e[0] == 'ok' and e[1] and not codec.f01_applies(c.T, c.v, True):
            usable.append((c, dec, e[1]))
    for _ in range(n):
        if not usable:
            break
        k = rng.randint(2, 4)
        picks = [rng.choice(usable) for _ in range(k)]
        if rng.random() < 0.5:
            picks = [picks[0]] * k                      # the very same guiding type object for all of them
        plans = []
        for c, dec, data in picks:
            stream_data = data * rng.choice([1, 1, 2])
            cuts = sorted(rng.sample(range(1, len(stream_data)), min(len(stream_data) - 1, rng.randint(0, 4)))) if len(stream_data) > 1 else []
            sizes = [b - a for a, b in zip([0] + cuts, cuts + [len(stream_data)])]
            sched = streams.schedule_from_sizes(stream_data, sizes, polls=set(i for i in range(len(sizes)) if rng.random() < 0.2))
            if rng.random() < 0.2:
                sched = sched[:-1]                      # never closed: ends suspended
            plans.append((c, dec, sched))
        shared_spec = {}
        machines = []
        for c, dec, sched in plans:
            spec = shared_spec.setdefault(id(c), c.spec)
            machines.append(Suspended(dec, spec, sched))
        order = []
        live = list(range(k))
        while live:
            j = rng.choice(live)
            order.append(j)
            machines[j].turn()
            if machines[j].outcome is not None:
                live.remove(j)
        ctx.case(('d' + tag, tuple((p[1], p[0].cty, str(p[2])[:80]) for p in plans), tuple(order[:60])), True)
        ctx.stats['interleavings of %d decoders' % k] += 1
        for j, (c, dec, sched) in enumerate(plans):
            alone = Suspended(dec, codec.Case(c.T, c.v).spec, sched)
            while alone.outcome is None:
                alone.turn()
            a = summarize(machines[j].events, machines[j].outcome, c.T)
            b = summarize(alone.events, alone.outcome, c.T)
            if not same_summary(a, b):
                ctx.prop_fail('a suspended streaming decoder interleaved with others yields something else than alone',
                              {'part': 'd' + tag, 'decoder': j, 'codec': dec, 'T': jsonable(c.T), 'schedule': jsonable(sched),
                               'interleaving': order[:200], 'interleaved': jsonable(a), 'alone': jsonable(b)})


def part_e(ctx, cases, threads=8, calls=100):
    rng = ctx.rng
    shared = [codec.Case(c.T, c.v) for c in cases]
    pool = make_pool(cases)
    plans = [[random_call(rng, cases, pool) for _ in range(calls)] for _ in range(threads)]
    expected = [[do_call(call, codec.Case(cases[call[1]].T, cases[call[1]].v)) for call in plan] for plan in plans]
    results = [None] * threads

    def work(t):
        out = []
        for call in plans[t]:
            try:
                out.append(do_call(call, shared[call[1]]))
            except Exception as e:  # noqa
                out.append(('harness-exception', type(e).__name__))
        results[t] = out
    ths = [threading.Thread(target=work, args=(t,)) for t in range(threads)]
    for th in ths: th.start()
    for th in ths: th.join()
    for t in range(threads):
        for call, got, want in zip(plans[t], results[t], expected[t]):
            ctx.case(('e', t, call[0], call[2], str(call[3])[:40], cases[call[1]].cty), True)
            ctx.stats['threaded calls'] += 1
            if not same_outcome(call, got, want):
                c = cases[call[1]]
                ctx.prop_fail('a %s call on another thread differs from the sequential outcome' % call[0],
                              {'part': 'e', 'T': jsonable(c.T), 'v': jsonable(c.v), 'call': jsonable(call[:1] + call[2:]),
                               'threaded': jsonable(got), 'sequential': jsonable(want)})


# -- (g) DEFAULT SEQUENCE OF / SET OF components left out of the substrate: the instantiated default of a decoded
#        result must not be the type's own DEFAULT value

def default_list_cases(ctx, n):
    r = ctx.rng
    g = gen.Gen(r, depth=1)
    out = []
    for _ in range(n):
        elem = r.choice([('int',), ('int',), ('octs',), ('bool',), ('any',), ('str', 'UTF8String'), ('oid',)])
        ft = (r.choice(['seqof', 'setof']), elem)
        dv = ('list', [g.val(elem) for _ in range(r.randint(1, 3))])
        fields = [('req', ('int',)), (('def', dv), ('imp', (128, 0, 1), ft)), ('opt', ('imp', (128, 0, 2), ('octs',)))]
        if r.random() < 0.3:
            fields.append((('def', ('list', [g.val(('int',)), g.val(('int',))])), ('imp', (128, 0, 3), ('seqof', ('int',)))))
        r.shuffle(fields)
        T = (r.choice(['seq', 'set']), fields)
        v = ('rec', [None if isinstance(p, tuple) or (p == 'opt' and r.random() < 0.5) else g.val(f) for p, f in fields])
        try:
            out.append(codec.Case(T, v))
        except Exception:  # noqa
            ctx.stats['unbuildable'] += 1
    return out


def edit_list(comp, rng):
    k = rng.randrange(3)
    if k == 0 and len(comp):
        comp.append(comp[0]); return 'append'
    if k == 1 and len(comp):
        comp[0] = comp[len(comp) - 1]; comp.append(comp[0]); return 'overwrite member 0 and append'
    comp.clear(); return 'clear'


def part_g(ctx, cases, tag=''):
    rng = ctx.rng
    for c in cases:
        b = base_desc(c.T)
        defs = [i for i, (p, ft) in enumerate(b[1]) if isinstance(p, tuple)]
        for dec in ('BER', 'CER', 'DER'):
            e = I.run_encode(dec, c.obj)
            if e[0] != 'ok':
                continue
            spec = codec.Case(c.T, c.v).spec
            snap0 = deep_snap(spec)
            alone = dec_outcome(I.run_decode(dec, e[1], asn1Spec=codec.Case(c.T, c.v).spec), c.T)
            d1 = I.run_decode(dec, e[1], asn1Spec=spec)
            d2 = I.run_decode(dec, e[1], asn1Spec=spec)
            ctx.case(('g' + tag, dec, c.cty, c.cval), True)
            ctx.stats['decodes omitting DEFAULT SEQUENCE OF/SET OF components'] += 1
            m = {'T': jsonable(c.T), 'v': jsonable(c.v), 'codec': dec, 'part': 'g' + tag, 'substrate': e[1].hex()}
            if not (same_dec(dec_outcome(d1, c.T), alone) and same_dec(dec_outcome(d2, c.T), alone)):
                ctx.prop_fail('two identical decode calls sharing the type object give different outcomes', m)
                continue
            if deep_snap(spec) != snap0:
                ctx.prop_fail('%s decoding changed the guiding type object' % dec, m)
                continue
            if d1[0] != 'ok':
                continue
            r1, r2 = d1[1], d2[1]
            edits = []
            for i in defs:
                comp = r1[i] if rng.random() < 0.5 else r1.getComponentByName('f%d' % i)      # the read instantiates the DEFAULT
                edits.append('f%d: %s' % (i, edit_list(comp, rng)))
            m['edits'] = edits
            if deep_snap(spec) != snap0:
                ctx.prop_fail('changing a decoded result changed the DEFAULT value held by the guiding type object', m)
            elif not same_dec(dec_outcome(('ok', r2, b''), c.T), ('ok', alone[1], b'')):
                ctx.prop_fail('changing a decoded result changed another decoded result', m)
            else:
                d3 = I.run_decode(dec, e[1], asn1Spec=spec)
                if not same_dec(dec_outcome(d3, c.T), alone):
                    ctx.prop_fail('the same decode call after a decoded result was changed gives a different outcome', m)
            want = U.absval_top(r1, c.T)
            e1 = I.run_encode('DER', r1)
            if e1[0] == 'ok' and want[0] != 'bad' and any_canonical(c.T, c.v, 'DER'):
                back = I.run_decode('DER', e1[1], asn1Spec=codec.Case(c.T, c.v).spec)
                if back[0] == 'ok' and not U.aval_eq(U.absval_top(back[1], c.T), want):
                    ctx.prop_fail('encoding a changed decoded result does not carry the change', dict(m, der=e1[1].hex()))


def part_h(ctx, cases, tag=''):
    """(h) plain Python values encoded / decoded against SHARED guiding objects: a schema object, and value objects of the
    type (any ASN.1 object may guide: DEFAULT components are value objects) holding ANOTHER value than the one encoded;
    the guiding object's snapshot, abstract content and own encoding must not change, a second call must agree with the
    first and with the same call guided by a fresh object"""
    from pyasn1.codec.native import decoder as native_dec
    g = gen.Gen(ctx.rng, depth=3)
    for c in cases:
        if 'any' in gen.features(c.T) or 'real' in gen.features(c.T):
            continue
        try:
            py = native_enc.encode(codec.Case(c.T, c.v).obj)
        except Exception:
            continue
        guides = [('schema object', U.build_type(c.T))]
        for _ in range(2):
            try:
                v2 = g.val(c.T)
                guides.append(('value object holding another value', codec.Case(c.T, v2).obj))
            except Exception:
                pass
        # CHOICE nodes: a guiding value that holds each other alternative at the top
        if base_desc(c.T)[0] == 'choice':
            for i, alt in enumerate(base_desc(c.T)[1]):
                try:
                    guides.append(('value object holding alternative %d' % i, codec.Case(c.T, ('ch', i, g.val(alt))).obj))
                except Exception:
                    pass
        for gname, guide in guides:
            snap0 = deep_snap(guide)
            own0 = I.run_encode('DER', guide)[:2] if getattr(guide, 'isValue', False) else None
            m = {'T': jsonable(c.T), 'v': jsonable(c.v), 'part': 'h' + tag, 'guide': gname}
            for name, opts in ENCODERS:
                ctx.case(('h' + tag, name, str(opts), gname, c.cty, c.cval), True)
                fresh = I.run_encode(name, py, asn1Spec=U.build_type(c.T), **opts)
                r1 = I.run_encode(name, py, asn1Spec=guide, **opts)
                r2 = I.run_encode(name, py, asn1Spec=guide, **opts)
                what = None
                if enc_outcome(r1) != enc_outcome(fresh):
                    what = '%s encoding of a Python value guided by a %s differs from the same call guided by a fresh schema object' % (name, gname)
                elif enc_outcome(r1) != enc_outcome(r2):
                    what = 'a second %s encoding of the same Python value guided by the same object differs' % name
                elif deep_snap(guide) != snap0:
                    what = '%s encoding of a Python value changed its guiding object (%s)' % (name, gname)
                elif own0 is not None and I.run_encode('DER', guide)[:2] != own0:
                    what = '%s encoding of a Python value changed the DER encoding of its guiding value object' % name
                if what:
                    ctx.prop_fail(what, dict(m, codec=name, opts=opts)); break
            else:
                try:
                    n1 = U.absval_top(native_dec.decode(py, asn1Spec=guide), c.T)
                    n0 = U.absval_top(native_dec.decode(py, asn1Spec=U.build_type(c.T)), c.T)
                except Exception as e:
                    ctx.stats['native decode raising %s' % type(e).__name__] += 1
                    continue
                ctx.case(('h' + tag, 'native-decode', gname, c.cty, c.cval), True)
                if not U.aval_eq(n1, n0):
                    ctx.prop_fail('native decoding guided by a %s differs from the same call guided by a fresh schema object' % gname, m)
                elif deep_snap(guide) != snap0:
                    ctx.prop_fail('native decoding changed its guiding object (%s)' % gname, m)


def open_type_decodes(ctx, n, tag=''):
    """DEFAULT SET OF / SEQUENCE OF ANY governed by an open type, left out of the substrate, decodeOpenTypes=True"""
    from pyasn1.type import namedtype, opentype
    rng = ctx.rng
    for _ in range(n):
        kind = rng.choice([1, 2])
        blobs = []
        for _ in range(rng.randint(1, 3)):
            inner = univ.Integer(rng.randrange(-300, 300)) if kind == 1 else univ.OctetString(bytes(rng.randrange(256) for _ in range(rng.randrange(4))))
            blobs.append(I.ENC['BER'].encode(inner))
        lst = (univ.SetOf if rng.random() < 0.5 else univ.SequenceOf)(componentType=univ.Any())
        for j, bl in enumerate(blobs):
            lst.setComponentByPosition(j, univ.Any(bl))
        base_cls = univ.Sequence if rng.random() < 0.5 else univ.Set
        schema = base_cls(componentType=namedtype.NamedTypes(
            namedtype.NamedType('id', univ.Integer()),
            namedtype.DefaultedNamedType('blobs', lst.subtype(implicitTag=__import__('pyasn1').type.tag.Tag(128, 32, 1), cloneValueFlag=True),
                                         openType=opentype.OpenType('id', {1: univ.Integer(), 2: univ.OctetString()}))))
        substrate = bytes([0x30 if base_cls is univ.Sequence else 0x31, 3, 2, 1, kind])
        snap0 = deep_snap(schema)
        outs = []
        for _ in range(3):
            d = I.run_decode('BER', substrate, asn1Spec=schema, decodeOpenTypes=True)
            outs.append(('ok', deep_snap(d[1]), d[2]) if d[0] == 'ok' else d[:2])
        ctx.case(('open' + tag, kind, tuple(blobs), base_cls.__name__, type(lst).__name__), True)
        ctx.stats['open type decodes with a DEFAULT list of ANY'] += 1
        m = {'part': 'g-open' + tag, 'kind': kind, 'blobs': [x.hex() for x in blobs], 'substrate': substrate.hex(), 'outcomes': jsonable([o[:1] + (o[1] if o[0] != 'ok' else '',) for o in outs])}
        if deep_snap(schema) != snap0:
            ctx.prop_fail('decoding with decodeOpenTypes changed the guiding type object', m)
        elif outs[0] != outs[1] or outs[0] != outs[2]:
            ctx.prop_fail('identical decode calls (decodeOpenTypes) on one type object give different outcomes', m)


def caller_open_type_maps(ctx, n, tag=''):
    """(i) decode(.., openTypes=m) with ONE caller-owned mapping m reused over calls and over two record types whose own
    maps give the same governing value different types: m must come back unchanged (same keys, same objects), every call
    must give what the same call gives with a private copy of m, in definite and indefinite form, BER/CER/DER"""
    from pyasn1.type import namedtype, opentype
    rng = ctx.rng
    def record(own, base_cls):
        return base_cls(componentType=namedtype.NamedTypes(
            namedtype.NamedType('id', univ.Integer()),
            namedtype.NamedType('blob', univ.Any(), openType=opentype.OpenType('id', own))))
    for _ in range(n):
        base_cls = univ.Sequence if rng.random() < 0.5 else univ.Set
        recA = record({1: univ.Integer(), 2: univ.OctetString()}, base_cls)
        recB = record({1: univ.OctetString(), 3: univ.Null()}, base_cls)
        shared = {7: univ.Boolean()} if rng.random() < 0.7 else {7: univ.Boolean(), 2: univ.Integer()}
        keys0, vals0 = list(shared.keys()), [id(v) for v in shared.values()]
        calls = []
        for _ in range(rng.randint(3, 6)):
            rec, own = rng.choice([(recA, 'A'), (recB, 'B')])
            gov = rng.choice([1, 2, 3, 7])
            inner = {1: univ.Integer(5) if own == 'A' else univ.OctetString(b'ab'), 2: univ.OctetString(b'xy') if 2 not in shared else univ.Integer(9),
                     3: univ.Null(''), 7: univ.Boolean(True)}[gov]
            v = rec.clone(); v['id'] = gov; v['blob'] = univ.Any(I.ENC['DER'].encode(inner))
            cdc = rng.choice(['BER', 'BER', 'DER', 'CER'])
            e = I.run_encode(cdc, v, **({'defMode': rng.random() < 0.5} if cdc == 'BER' else {}))
            if e[0] != 'ok':
                continue
            calls.append((own, rec, gov, cdc, e[1]))
        m = {'part': 'i' + tag, 'calls': [(o, g, c, b.hex()) for o, _, g, c, b in calls], 'shared_keys': keys0}
        for own, rec, gov, cdc, data in calls:
            alone = I.run_decode(cdc, data, asn1Spec=rec, openTypes=dict(shared))
            got = I.run_decode(cdc, data, asn1Spec=rec, openTypes=shared)
            ctx.case(('caller-map' + tag, own, gov, cdc, data), True)
            ctx.stats['decodes with a caller-owned openTypes mapping'] += 1
            a = ('ok', deep_snap(alone[1]), alone[2]) if alone[0] == 'ok' else alone[:2]
            b = ('ok', deep_snap(got[1]), got[2]) if got[0] == 'ok' else got[:2]
            if list(shared.keys()) != keys0 or [id(v) for v in shared.values()] != vals0:
                ctx.prop_fail('decoding changed the openTypes mapping the caller passed in (keys %r -> %r)' % (keys0, list(shared.keys())), dict(m, at=[own, gov, cdc, data.hex()]))
                break
            if a != b:
                ctx.prop_fail('a decode with a reused openTypes mapping differs from the same call with a private copy of it', dict(m, at=[own, gov, cdc, data.hex()]))
                break


def run(ctx):
    ctx.rule = ('random (type, value) of the universe (depth<=3): (a) deep snapshot / second encode / == answers around ber (definite, '
                'indefinite chunked), cer, der and native encoding; (b) snapshot of the guiding type around decoding valid, truncated, '
                'bit-flipped and over-long input, aliasing between two decoded results and the type; (c) random histories of encode/decode '
                'calls on shared objects vs the same call on fresh objects, also evaluated in the Coq model; (d) 2..4 suspended streaming '
                'decoders (often sharing one type object) in a random interleaving vs alone; (e) 8 threads x 100 calls on shared objects vs '
                'sequential (the thread schedules are whatever the interpreter produced: sampled, not enumerated); (f) samples of (a)-(d),(g) with debug logging on; (g) SEQUENCE/SET types with DEFAULT SEQUENCE OF / SET OF '
                'components (INTEGER, OCTET STRING, BOOLEAN, ANY, string, OID members; also SET OF/SEQUENCE OF ANY under an open type with '
                'decodeOpenTypes) that the substrate leaves out: type object snapshot, repeated decodes, in-place edits of the instantiated '
                'default in one result against the type, the other result, a further decode and the DER round trip; (h) plain Python values encoded (every codec) and natively decoded against shared guiding objects - a schema object and value objects of the type holding another value / each other CHOICE alternative: guide snapshot, second call, same call with a fresh guide; (i) decodes with one caller-owned openTypes mapping reused over calls and over record types whose own maps disagree on a governing value: mapping unchanged, same outcome as with a private copy')
    quick = ctx.tier != 'thorough'
    cases = codec.gen_cases(ctx, ctx.n(60, 500), depth=3)
    cases = [c for c in cases if c.want[0] != 'bad']
    search_only = getattr(ctx, 'search_only', False)
    exprs, meta = ([], []) if not search_only else (None, None)
    rcases = [c for c in constructed_default_cases(ctx, ctx.n(30, 300)) if c.want[0] != 'bad']
    ctx.stats['cases with a DEFAULT component of constructed type'] = len(rcases)
    part_a(ctx, cases + rcases)
    part_b(ctx, cases + rcases[:20])
    part_c(ctx, cases, ctx.n(400, 4000), exprs, meta)
    part_d(ctx, cases, ctx.n(60, 600))
    part_e(ctx, cases[:40] if quick else cases[:120])
    dcases = default_list_cases(ctx, ctx.n(40, 400))
    part_g(ctx, dcases)
    part_h(ctx, cases + [c for c in codec.presence_grid_cases(ctx, every=9 if quick else 2) if c.want[0] != 'bad'])
    open_type_decodes(ctx, ctx.n(30, 300))
    caller_open_type_maps(ctx, ctx.n(40, 400))
    # (f) the same with the debug logger installed, then removed again
    sample = cases[:20] if quick else cases[:100]
    debug.setLogger(debug.Debug('all', printer=lambda *a: None))
    try:
        part_a(ctx, sample, tag='+log')
        part_b(ctx, sample, tag='+log')
        part_c(ctx, sample, ctx.n(100, 600), None, None, tag='+log')
        part_d(ctx, sample, ctx.n(15, 100), tag='+log')
        part_g(ctx, dcases[:10], tag='+log')
        open_type_decodes(ctx, 5, tag='+log')
    finally:
        debug.setLogger(0)
    part_c(ctx, sample, ctx.n(50, 300), None, None, tag='+log-off-again')
    ctx.sample({'type': jsonable(cases[0].T), 'value': jsonable(cases[0].v)})
    if exprs:
        codes = core.coq_codes('c12', 'Model.Enc Model.Dec Model.Obs', exprs)
        for i, cd in codes.items():
            if cd == 2:
                ctx.stats['model_declines'] += 1
            else:
                ctx.corr_fail('the pure model and the implementation disagree on a call', meta[i])


def replay(data):
    print(json.dumps(data.get('case', data), indent=1)[:4000])
    return 0

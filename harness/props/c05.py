"""C05 - streaming decoder output is independent of the data arrival schedule."""
import itertools
from harness import core, codec, universe as U, implrun as I, streams, gen
from harness.coqio import cbytes, clist, cnat
from pyasn1 import error


def coq_sched(sched):
    out = []
    for ev in sched:
        if ev[0] == 'arrive': out.append('Arrive %s' % cbytes(ev[1]))
        elif ev[0] == 'close': out.append('Close')
        else: out.append('Poll')
    return clist(out)


def summarize(events, outcome, T):
    """(number of underrun reports, objects as (abstract value, position), outcome)"""
    n_under = sum(1 for e in events if e in ('U', 'N'))
    objs = [(U.absval_top(e[1], T), e[2]) for e in events if not isinstance(e, str)]
    bare_none = sum(1 for e in events if e == 'N')
    return n_under, objs, outcome, bare_none


def one_shot_objects(cdc, data, spec, T):
    """what decoding the complete bytes yields: objects in order, then how it stops"""
    s = streams.Growing()
    s.arrive(data); s.close_input()
    ev, out = streams.drive(I.DEC[cdc], s, [], spec=spec)
    return summarize(ev, out, T)


def gen_streams(ctx, n):
    """concatenations of 1..3 encodings of values of one small type"""
    out = []
    g = gen.Gen(ctx.rng, depth=2, max_fields=3, any_ok=False)
    tries = 0
    while len(out) < n and tries < 50 * n:
        tries += 1
        T = g.ty()
        if not codec.any_positions_ok(T): continue
        k = ctx.rng.choice([1, 1, 2, 3])
        vals = [g.val(T) for _ in range(k)]
        cdc = ctx.rng.choice(['BER', 'BER', 'CER', 'DER'])
        try:
            cs = [codec.Case(T, v) for v in vals]
        except Exception:
            continue
        encs = []
        for c in cs:
            if cdc == 'BER':
                e = I.run_encode('BER', c.obj, defMode=ctx.rng.random() < 0.5, maxChunkSize=ctx.rng.choice([0, 0, 2]))
            else:
                e = I.run_encode(cdc, c.obj)
            encs.append(e)
        if any(e[0] != 'ok' for e in encs): continue
        if any(codec.f01_applies(T, v, True) for v in vals): continue      # F01 output is not a concatenation of encodings
        data = b''.join(e[1] for e in encs)
        if not data: continue
        out.append((cdc, T, cs, data))
    return out


def grid_streams(ctx, every=1):
    """one encoding of every base kind (every simple, string, time and container type), plain and under one
    EXPLICIT tag, in each of BER-definite, BER-indefinite-chunked, CER and DER: short streams on which every cut point
    and every chunking is then tried"""
    out, i = [], 0
    for c in codec.tag_grid_cases(ctx):
        X, depth = c.T, 0
        while X[0] in ('imp', 'exp'):
            depth += 1; X = X[2]
        if depth > 1 or c.T[0] == 'imp':
            continue
        for cdc, kw in (('BER', dict(defMode=True, maxChunkSize=0)), ('BER', dict(defMode=False, maxChunkSize=2)), ('CER', {}), ('DER', {})):
            i += 1
            if every > 1 and (i + ctx.seed) % every:
                continue
            if codec.f01_applies(c.T, c.v, cdc == 'CER' or kw.get('defMode') is False):
                continue
            e = I.run_encode(cdc, c.obj, **kw)
            if e[0] == 'ok' and e[1]:
                out.append((cdc, c.T, [c], e[1]))
                ctx.stats['grid-stream:' + cdc] += 1
    return out


def run(ctx):
    ctx.rule = ('streams = concatenations of 1..3 BER/CER/DER encodings; schedules = every partition of the stream into chunks '
                '(all 2^(n-1) for short streams), sampled partitions with empty polls, short reads, end-of-stream together with or '
                'after the last chunk; seekable growing stream and non-seekable stream behind the caching wrapper; with and without '
                'guiding type; besides random types, one encoding of every base kind, plain and under an EXPLICIT tag, per codec; non-trivial = schedule with at least 2 chunks')
    search_only = getattr(ctx, 'search_only', False)
    max_exh = 7 if ctx.tier == 'quick' else 11
    sts = gen_streams(ctx, ctx.n(40, 400)) + grid_streams(ctx, every=4 if ctx.tier == 'quick' else 1)
    exprs, meta = [], []
    for cdc, T, cs, data in sts:
        spec = cs[0].spec
        ref = one_shot_objects(cdc, data, spec, T)
        if ref[2] != 'stop' or len(ref[1]) != len(cs):
            ctx.stats['skipped: the complete input does not decode to as many objects as were encoded'] += 1
            # never seen on an intact tree (the F01 class is filtered by the generator): without a one-shot reference
            # there is nothing to compare schedules with, and the stream of encoder outputs is not what C05 quantifies over
            fids = [codec.classify_roundtrip(T, c.v, cdc, True) for c in cs]
            ctx.prop_fail('the complete stream of %d encoder outputs decodes to %d objects, outcome %r: no one-shot reference' % (len(cs), len(ref[1]), ref[2]),
                          {'codec': cdc, 'T': T, 'data': data.hex()}, finding=next((f for f in fids if f), None))
            continue
        ctx.stats['codec:' + cdc] += 1
        ctx.stats['len:%d' % min(len(data), 40)] += 1
        scheds = []
        if len(data) <= max_exh:
            for sizes in streams.partitions(len(data)):
                scheds.append(streams.schedule_from_sizes(data, sizes))
            ctx.stats['exhaustive_partition_sets'] += 1
        for _ in range(6 if ctx.tier == 'quick' else 30):
            k = ctx.rng.randint(1, min(len(data), 6))
            cuts = sorted(ctx.rng.sample(range(1, len(data)), k - 1)) if len(data) > 1 else []
            sizes = [b - a for a, b in zip([0] + cuts, cuts + [len(data)])]
            polls = set(i for i in range(len(sizes)) if ctx.rng.random() < 0.3)
            sc = streams.schedule_from_sizes(data, sizes, polls=polls)
            if ctx.rng.random() < 0.3:
                sc.insert(len(sc) - 1, ('poll',))          # end-of-stream signalled after the last byte
            scheds.append(sc)
        for sc in scheds:
            for kind in ('seekable', 'nonseekable', 'shortreads'):
                if kind != 'seekable' and ctx.rng.random() < 0.7:
                    continue
                s = streams.Growing(seekable=(kind != 'nonseekable'), max_read=(2 if kind == 'shortreads' else None))
                ev, out = streams.drive(I.DEC[cdc], s, sc[1:] if False else sc, spec=spec)
                got = summarize(ev, out, T)
                ctx.case((cdc, data, tuple(map(str, sc)), kind), len(sc) > 2)
                ctx.stats['kind:' + kind] += 1
                m = {'codec': cdc, 'T': T, 'data': data.hex(), 'schedule': [list(e) for e in sc], 'kind': kind}
                what = None
                if got[2] != 'stop':
                    what = 'streaming run ends with %s where the complete input decodes cleanly' % (got[2],)
                elif len(got[1]) != len(ref[1]) or any(not U.aval_eq(a[0], b[0]) for a, b in zip(got[1], ref[1])):
                    what = 'objects differ from those of the complete input'
                elif kind == 'seekable' and [p for _, p in got[1]] != [p for _, p in ref[1]]:
                    what = 'stream position after an object differs'
                elif got[3]:
                    what = 'a bare None was yielded instead of an underrun report'
                elif got[0] > len(sc) + 1:
                    what = 'more underrun reports than environment events'
                if what:
                    ctx.prop_fail(what, m)
                if kind == 'seekable' and not search_only:
                    iobjs = clist(['(%s, %s)' % (U.coq_aval(a), cnat(p)) for a, p in got[1]])
                    if got[2] == 'stop': io = '(IStop %s)' % iobjs
                    elif got[2] == 'exhausted': io = 'IExhausted'
                    else: io = '(IErr %s)' % got[2][1]
                    fuel = 2 * len(data) + 40
                    exprs.append('drive_code %s (drive %s (streaming %s %s (Some %s)) (mkStream [] 0 false 0)) %s %s' % (
                        cs[0].cty, coq_sched(sc), cdc, cnat(fuel), cs[0].cty, cnat(got[0]), io))
                    meta.append(m)
        # without a guiding type (prop level only): same objects as one-shot, compared by re-encoding
        try:
            ref0 = streams.drive(I.DEC[cdc], _closed(data), [])
        except Exception:
            ref0 = None
        if ref0 and ref0[1] == 'stop':
            enc0 = [_reenc(e[1]) for e in ref0[0] if not isinstance(e, str)]
            for sc in scheds[:10]:
                s = streams.Growing()
                ev, out = streams.drive(I.DEC[cdc], s, sc)
                enc1 = [_reenc(e[1]) for e in ev if not isinstance(e, str)]
                ctx.case(('nospec', cdc, data, tuple(map(str, sc))), len(sc) > 2)
                if out != 'stop' or enc1 != enc0:
                    ctx.prop_fail('schemaless streaming run differs from the complete input', {'codec': cdc, 'data': data.hex(), 'schedule': [list(e) for e in sc], 'kind': 'nospec'})
    large_streams(ctx)
    if meta: ctx.sample(meta[0]); ctx.sample(meta[-1])
    if not search_only:
        codes = core.coq_codes('c05', 'Model.Dec Model.Obs', exprs)
        for i, cd in codes.items():
            if cd == 2: ctx.stats['model_declines'] += 1
            else: ctx.corr_fail('model and implementation disagree on a streaming run', meta[i])


def large_streams(ctx):
    """streams longer than the caching wrapper's buffer, read from a non-seekable source: a long series of
    small top-level items, and an indefinite-length container followed by more items (definite-length
    containers longer than the buffer are the open finding F06 and are left to C11); the same with untagged ANY at the
    places where elements start"""
    import io
    from pyasn1.type import univ
    from pyasn1.codec.ber import encoder as benc
    r = ctx.rng
    buf = io.DEFAULT_BUFFER_SIZE
    scenarios = []
    n_items = (2 * buf) // 90 + r.randint(3, 40)
    items = b''.join(benc.encode(univ.OctetString(bytes([i % 251]) * r.randint(60, 110))) for i in range(n_items))
    scenarios.append(('series', items, None))
    so = univ.SequenceOf(componentType=univ.OctetString()); so.clear()
    for i in range((buf + buf // 2) // 100 + r.randint(1, 30)):
        so.append(bytes([i % 200]) * r.randint(80, 120))
    scenarios.append(('indef-container+tail', benc.encode(so, defMode=False) + benc.encode(univ.Integer(7)) * 3, None))
    # the same with untagged ANY where elements start: every top-level item read as ANY; records SEQUENCE { OCTET STRING, ANY }
    # in indefinite form; CHOICE { ANY }; an indefinite SEQUENCE OF ANY longer than the buffer, then more items
    from pyasn1.type import namedtype
    scenarios.append(('series read as ANY', items, univ.Any()))
    rec = univ.Sequence(componentType=namedtype.NamedTypes(namedtype.NamedType('o', univ.OctetString()), namedtype.NamedType('a', univ.Any())))
    recs = b''
    for i in range((2 * buf) // 120 + r.randint(3, 20)):
        v = rec.clone(); v['o'] = bytes([i % 250]) * r.randint(40, 70); v['a'] = benc.encode(univ.OctetString(bytes([i % 249]) * r.randint(30, 50)))
        recs += benc.encode(v, defMode=False)
    scenarios.append(('indefinite records SEQUENCE {OCTET STRING, ANY}', recs, rec))
    scenarios.append(('series read as CHOICE {ANY}', items, univ.Choice(componentType=namedtype.NamedTypes(namedtype.NamedType('a', univ.Any())))))
    sa = univ.SequenceOf(componentType=univ.Any()); sa.clear()
    for i in range((buf + buf // 2) // 100 + r.randint(1, 30)):
        sa.append(benc.encode(univ.OctetString(bytes([i % 200]) * r.randint(80, 120))))
    sa2 = univ.SequenceOf(componentType=univ.Any()); sa2.clear(); sa2.append(benc.encode(univ.Integer(7))); sa2.append(benc.encode(univ.Null('')))
    scenarios.append(('indefinite SEQUENCE OF ANY+tail', benc.encode(sa, defMode=False) + benc.encode(sa2, defMode=False) * 3, univ.SequenceOf(componentType=univ.Any())))
    # untagged ANY whose VALUE is an indefinite-length TLV that opens with a constructed element (the header octets of the
    # ANY are re-read after a seek back; a source may hand them out one octet per read, seekable or not)
    inner = univ.Sequence(componentType=namedtype.NamedTypes(
        namedtype.NamedType('s', univ.Sequence(componentType=namedtype.NamedTypes(namedtype.NamedType('i', univ.Integer())))),
        namedtype.NamedType('o', univ.OctetString())))
    series = b''
    for i in range(r.randint(12, 30)):
        v = inner.clone(); v['s']['i'] = i * 1000 + 7; v['o'] = bytes([i % 251]) * r.randint(1, 90)
        series += benc.encode(v, defMode=False)
    scenarios.append(('indefinite constructed values read as ANY', series, univ.Any()))
    recs2 = b''
    for i in range(r.randint(8, 20)):
        iv = inner.clone(); iv['s']['i'] = -i; iv['o'] = b'q' * r.randint(0, 40)
        v = rec.clone(); v['o'] = bytes([i]) * r.randint(1, 30); v['a'] = benc.encode(iv, defMode=False)
        recs2 += benc.encode(v, defMode=r.random() < .5)
    scenarios.append(('records whose ANY member holds an indefinite constructed value', recs2, rec))
    for name, data, spec in scenarios:
        ref = streams.drive(I.DEC['BER'], _closed(data), [], spec=spec)
        ref_enc = [_reenc(e[1]) for e in ref[0] if not isinstance(e, str)]
        for kind in ('nonseekable', 'nonseekable-shortreads', 'seekable', 'seekable-shortreads', 'seekable-shortreads-1'):
            k = r.randint(2, 7)
            cuts = sorted(r.sample(range(1, len(data)), k - 1))
            sizes = [b - a for a, b in zip([0] + cuts, cuts + [len(data)])]
            sc = streams.schedule_from_sizes(data, sizes, polls={0} if r.random() < .5 else ())
            s = streams.Growing(seekable=kind.startswith('seekable'), max_read=((1 if kind.endswith('-1') else r.choice([1, 3, 1000])) if 'short' in kind else None))
            ev, out = streams.drive(I.DEC['BER'], s, sc, spec=spec)
            got = [_reenc(e[1]) for e in ev if not isinstance(e, str)]
            ctx.case(('large', name, kind, len(data), tuple(sizes)), True)
            ctx.stats['large:%s/%s' % (name, kind)] += 1
            if ref[1] == 'stop' and (out != 'stop' or got != ref_enc):
                ctx.prop_fail('long stream (%d octets, %s) read through a %s source: %d objects, outcome %r; complete input gives %d objects' % (
                    len(data), name, kind, len(got), out, len(ref_enc)),
                    {'kind': kind, 'scenario': name, 'length': len(data), 'chunk_sizes': sizes, 'data_prefix': data[:64].hex()})


def _closed(data):
    s = streams.Growing(); s.arrive(data); s.close_input(); return s


def _reenc(obj):
    try:
        from pyasn1.codec.der import encoder
        return bytes(encoder.encode(obj))
    except Exception as e:
        return 'unencodable:%s' % type(e).__name__


def replay(data):
    m = data.get('case', data)
    print(m)
    return 0

"""C03 - encoder output equals the X.690 encoding computed by an independent reference (Spec/X690.v)."""
from harness import core, codec, universe as U, implrun as I, gen
from harness.coqio import cbytes
from harness.gen import base_desc

BOUNDARY_LENGTHS = [126, 127, 128, 129, 254, 255, 256, 257, 999, 1000, 1001, 2001]


def boundary_cases(ctx):
    """length octets at 127/128, 255/256, 65535/65536; strings around the CER segment size"""
    out = []
    for n in BOUNDARY_LENGTHS + [65535, 65536] + [ctx.rng.randrange(2, 3000) for _ in range(3)]:
        out.append(codec.Case(('octs',), ('o', bytes((i * 7 + n) % 251 for i in range(n)) if n < 300 else bytes([n % 251]) * n)))
    for n in ((7992, 7993, 8001) if ctx.tier == 'quick' else (7985, 7991, 7992, 7993, 8000, 8001, 15985, 16003)):   # BIT STRING around 999 / 1000 octets of bits (9.2)
        out.append(codec.Case(('bits',), ('bits', tuple((i * i + n) % 3 == 0 and 1 or 0 for i in range(n)))))
    # long strings under an IMPLICIT and an EXPLICIT tag: the segments keep the universal tag of the string type
    for T0, v0 in ((('bits',), ('bits', tuple((i * 7) % 5 == 0 and 1 or 0 for i in range(8001)))),
                   (('octs',), ('o', bytes([7]) * 1001)), (('str', 'UTF8String'), ('chars', 'x' * 1500))):
        for wrap in (lambda t: ('imp', (128, 0, 5), t), lambda t: ('exp', (64, 0, 31), t), lambda t: ('imp', (192, 0, 40), ('exp', (128, 0, 2), t))):
            out.append(codec.Case(wrap(T0), v0))
    for n in (999, 1001, 2500):
        out.append(codec.Case(('str', 'IA5String'), ('chars', 'q' * n)))
        out.append(codec.Case(('seq', [('req', ('str', 'UTF8String')), ('req', ('int',))]),
                              ('rec', [('chars', 'é' * (n // 2)), ('i', n)])))
    return out


def run(ctx):
    ctx.rule = ('random (type, value) from the universe plus forced length boundaries (127/128, 255/256, 65535/65536, 1000/1001 octets); '
                'DER and CER bytes compared with Spec.X690.der/cer evaluated in Coq; BER (definite, indefinite, chunked) and CER bytes '
                'read back by Spec.X690.read; DER/CER called with caller-supplied defMode/maxChunkSize must give the same octets; long strings in the content shapes that matter to segmentation (all zero, zeros then data, lone bits at the boundary); non-trivial = constructed/tagged type or a forced boundary')
    cases = codec.gen_cases(ctx, ctx.n(150, 3000), depth=3, any_der=True)
    cases += codec.leaf_boundary_cases(ctx, every=3 if ctx.tier == 'quick' else 1)
    cases += codec.presence_grid_cases(ctx, every=2 if ctx.tier == 'quick' else 1)
    cases += codec.empty_member_grid_cases(ctx, every=3 if ctx.tier == 'quick' else 1)   # empty / non-empty constructed members around OPTIONAL ones
    cases += codec.tag_grid_cases(ctx, every=2 if ctx.tier == 'quick' else 1)            # every kind under every tagging shape of depth 0..2
    cases += codec.set_order_grid_cases(ctx, every=12 if ctx.tier == 'quick' else 1)     # every ordered pair of differently tagged SET members
    cases += codec.long_tag_set_order_cases(ctx) + codec.mixed_form_sibling_cases(ctx)   # round 7
    # SETs whose members are nested CHOICEs (untagged, or under an EXPLICIT tag of their own) with sibling tags in between
    from harness.props import c17 as _c17
    for T_, v_, _how in _c17.set_choice_cases(ctx, gen.Gen(ctx.rng), ctx.n(8, 150)):
        try: cases.append(codec.Case(T_, v_))
        except Exception: ctx.stats['set_choice_unbuildable'] += 1
    nrandom = len(cases)
    cases += boundary_cases(ctx)
    cases += codec.long_string_cases(ctx, every=2 if ctx.tier == 'quick' else 1)
    exprs, meta = [], []
    search_only = getattr(ctx, 'search_only', False)
    for ci, c in enumerate(cases):
        for cdc in ('DER', 'CER'):
            e = I.run_encode(cdc, c.obj)
            ctx.case((cdc, c.cty, c.cval), c.T[0] not in ('bool', 'int', 'null'))
            ctx.stats['enc:' + cdc] += 1
            if e[0] != 'ok':
                # the reference must refuse too (None), otherwise the encoder failed on a valid value
                exprs.append('match canon %s %s %s with Some _ => 1 | None => 0 end' % ('true' if cdc == 'CER' else 'false', c.cty, c.cval))
                meta.append({'kind': 'ref', 'codec': cdc, 'T': c.T, 'v': c.v, 'impl': e[1]})
                continue
            exprs.append('match canon %s %s %s with Some b => if bytes_eqb b %s then 0 else 1 | None => 2 end' % (
                'true' if cdc == 'CER' else 'false', c.cty, c.cval, cbytes(e[1])))
            meta.append({'kind': 'ref', 'codec': cdc, 'T': c.T, 'v': c.v, 'bytes': e[1].hex() if len(e[1]) < 400 else e[1][:200].hex() + '...'})
            if not search_only:
                exprs.append(codec.enc_expr(cdc, True, 0, c, e))
                meta.append({'kind': 'model', 'codec': cdc, 'T': c.T, 'v': c.v})
            # the canonical encoders fix their own mode: whatever defMode / maxChunkSize the caller passes, same octets
            if (ci + ctx.seed) % (3 if ctx.tier == 'quick' else 1) == 0 or ci >= nrandom:
                for kw in (dict(defMode=False), dict(maxChunkSize=4), dict(defMode=False, maxChunkSize=1), dict(defMode=True, maxChunkSize=1000)):
                    e2 = I.run_encode(cdc, c.obj, **kw)
                    ctx.case((cdc, str(kw), c.cty, c.cval), True)
                    ctx.stats['caller options passed to ' + cdc] += 1
                    if e2[:2] != e[:2]:
                        ctx.prop_fail('%s output depends on the options the caller passes (%s)' % (cdc, kw),
                                      {'kind': 'options', 'codec': cdc, 'options': kw, 'T': c.T, 'v': c.v,
                                       'plain': e[1].hex()[:400], 'with_options': e2[1].hex()[:400] if e2[0] == 'ok' else e2[1]})
                        break
        # forced long strings are not cut into tiny segments (tens of thousands of TLVs)
        small_chunk = ctx.rng.choice([1, 3, 7]) if ci < nrandom else 1000
        for defm, chunk in ((True, 0), (False, 0), (False, small_chunk), ('CER', 0)):
            if defm == 'CER':
                e = I.run_encode('CER', c.obj); label = 'CER'
            else:
                e = I.run_encode('BER', c.obj, defMode=defm, maxChunkSize=chunk); label = 'BER'
            if e[0] != 'ok':
                continue
            ctx.case(('read', label, defm, chunk, c.cty, c.cval), True)
            exprs.append('match read %s %s with Some (a, []) => if aval_eqb a (abs %s %s) then 0 else 1 | Some _ => 1 | None => 1 end' % (
                c.cty, cbytes(e[1]), c.cty, c.cval))
            meta.append({'kind': 'read', 'codec': label, 'defMode': defm, 'maxChunkSize': chunk, 'T': c.T, 'v': c.v,
                         'bytes': e[1].hex() if len(e[1]) < 400 else e[1][:200].hex() + '...'})
    ctx.sample(meta[0]); ctx.sample(meta[-1])
    codes = core.coq_codes('c03', 'Spec.X690 Model.Enc Model.Obs', exprs)
    for i, cd in codes.items():
        m = meta[i]
        if cd == 2:
            ctx.stats['reference_declines'] += 1
            continue
        if m['kind'] == 'model':
            ctx.corr_fail('model and implementation disagree on %s bytes' % m['codec'], m)
            continue
        indefinite = m['codec'] == 'CER' or m.get('defMode') is False
        fid = codec.classify_roundtrip(m['T'], m['v'], m['codec'], indefinite)
        what = ('%s output differs from the X.690 reference encoding' % m['codec'] if m['kind'] == 'ref'
                else '%s output does not denote the value when read by the X.690 reference reader' % m['codec'])
        ctx.prop_fail(what, m, finding=fid)
        ctx.stats['prop_fail:' + (fid or 'unexplained')] += 1


def replay(data):
    m = data.get('case', data)
    c = codec.Case(m['T'], m['v'])
    print('type :', m['T']); print('value:', m['v'])
    for cdc in ('DER', 'CER'):
        e = I.run_encode(cdc, c.obj)
        print(cdc, 'implementation:', e[1].hex() if e[0] == 'ok' else e[1])
        print(cdc, 'reference     :', ' '.join(core.coq_show('Spec.X690', 'canon %s %s %s' % ('true' if cdc == 'CER' else 'false', c.cty, c.cval)).split())[:2000])
    return 0

"""C20 - time values convert to and from datetime without changing the instant; the CER/DER
encoders emit only canonical time strings denoting the same instant and refuse non-UTC values.

Part (a): the datetime grid of the property (dates x microseconds x offsets x both types) through
T.fromDateTime(dt).asDateTime.  Part (b): time strings of the X.680 grammar (and a few outside it)
through the real CER and DER encoders and through asDateTime.  Every implementation output is
compared with the Coq model (Model/Time.v); the X.680 reading (Spec/X680Time.v) is cross-checked
with the independent Python reader harness/x680time.py."""
import datetime, itertools
from fractions import Fraction
from harness import core, coqio, x680time
from pyasn1.type import useful
from pyasn1.codec.cer import encoder as cer_enc
from pyasn1.codec.der import encoder as der_enc
from pyasn1 import error

IMPORTS = 'Base.Bytes Spec.X680Time Model.Time Gen.Tables'
DEFS = '''Definition inst_eqb (a b: option (bool * Q)) : bool :=
  match a, b with
  | None, None => true
  | Some (l1, q1), Some (l2, q2) => Bool.eqb l1 l2 && Qeq_bool q1 q2
  | _, _ => false end.
Definition text_eqb : list N -> list N -> bool := list_eqb N.eqb.
'''
MICROS = [0, 1000, 5000, 50000, 120000, 999000]
OFFSETS = [None, 0, 1, -1, 30, -30, 60, -60, 90, -90, 330, -330, 840, -840]
TYPES = {'G': (useful.GeneralizedTime, 'GenT'), 'U': (useful.UTCTime, 'UtcT')}
FIXED_DATES = [
    (1, 1, 1, 0, 0, 0), (1, 12, 31, 23, 59, 59), (9, 9, 9, 9, 9, 9), (99, 12, 31, 23, 59, 59), (100, 1, 1, 0, 0, 0),
    (999, 12, 31, 23, 59, 59), (1000, 1, 1, 0, 0, 0), (9999, 1, 1, 0, 0, 0), (9999, 12, 31, 23, 59, 59),
    (1600, 2, 29, 12, 0, 0), (1900, 2, 28, 23, 59, 59), (1900, 3, 1, 0, 0, 0), (2000, 2, 29, 0, 0, 0),
    (2016, 2, 29, 23, 59, 59), (2017, 2, 28, 23, 59, 59), (2100, 3, 1, 0, 0, 0), (2400, 2, 29, 1, 2, 3),
    (2017, 1, 31, 0, 0, 0), (2017, 4, 30, 23, 59, 59), (2017, 7, 11, 0, 1, 2), (2017, 12, 31, 23, 59, 59),
    (1949, 12, 31, 23, 59, 59), (1950, 1, 1, 0, 0, 0), (2049, 12, 31, 23, 59, 59), (2050, 1, 1, 0, 0, 0),
    (1968, 12, 31, 23, 59, 59), (1969, 1, 1, 0, 0, 0), (2068, 12, 31, 23, 59, 59), (2069, 1, 1, 0, 0, 0),
    (1970, 1, 1, 0, 0, 0), (2038, 1, 19, 3, 14, 7), (2000, 1, 1, 0, 0, 0), (1999, 12, 31, 23, 59, 59),
]


def tzinfo_of(m):
    return None if m is None else datetime.timezone(datetime.timedelta(minutes=m))


def ctext(s):
    return '[' + ';'.join('%d' % ord(c) for c in s) + ']'


def cdt(y, mo, d, h, mi, s, us, off):
    return '(mkDT %d %d %d %d %d %d %d %s)' % (y, mo, d, h, mi, s, us, coqio.copt(off, coqio.cZ))


def exc_class(e):
    if isinstance(e, error.PyAsn1Error):
        return 'EMalformed'
    return '(ECrash %s)' % type(e).__name__


def micros_since_epoch(y, mo, d, h, mi, s, us, off):
    """absolute instant in microseconds, computed without datetime arithmetic"""
    days = datetime.date(y, mo, d).toordinal() - 1
    return (((days * 24 + h) * 60 + mi) * 60 + s) * 1000000 + us - 60000000 * (off or 0)


def obs_datetime(r):
    off = None
    if r.tzinfo is not None:
        td = r.tzinfo.utcoffset(None)
        secs = td.days * 86400 + td.seconds
        off = secs // 60 if secs % 60 == 0 and not td.microseconds else Fraction(secs, 60)
    return (r.year, r.month, r.day, r.hour, r.minute, r.second, r.microsecond, off)


def as_datetime(T, text):
    """('ok', fields) | ('err', coq error class)"""
    try:
        return ('ok', obs_datetime(T(text).asDateTime))
    except Exception as e:           # noqa: the class is the observation
        return ('err', exc_class(e))


def cres_dt(r):
    if r[0] == 'ok':
        f = r[1]
        if not isinstance(f[7], (int, type(None))):
            return None
        return '(Ok %s)' % cdt(*f)
    return '(Err %s)' % r[1]


def f11_class(off):
    """fromDateTime's offset text is wrong unless the offset is absent, zero or positive whole hours"""
    return off not in (None, 0) and not (off > 0 and off % 60 == 0)


def f26_class(kind, year):
    """strftime('%Y') is not zero-padded by glibc for years below 1000"""
    return kind == 'G' and year < 1000


def in_domain(kind, year, us):
    """millisecond precision for GeneralizedTime; second precision and the two-digit-year
    window of strptime's %y (1969..2068) for UTCTime"""
    if kind == 'G':
        return us % 1000 == 0
    return us == 0 and 1969 <= year <= 2068


# ------------------------------------------------------------------------------------------------
def part_a(ctx):
    rng = ctx.rng
    dates = list(FIXED_DATES)
    for _ in range(ctx.n(14, 520)):
        y = rng.choice([rng.randint(1, 9999), rng.randint(1940, 2080), rng.randint(1, 1100)])
        mo = rng.randint(1, 12)
        d = rng.choice([1, x680time.month_len(y, mo), rng.randint(1, x680time.month_len(y, mo))])
        dates.append((y, mo, d, rng.choice([0, 23, rng.randint(0, 23)]), rng.choice([0, 59, rng.randint(0, 59)]),
                      rng.choice([0, 59, rng.randint(0, 59)])))
    exprs, meta = [], []
    for date in dates:
        for us in MICROS:
            for off in OFFSETS:
                for kind in 'GU':
                    T, K = TYPES[kind]
                    y = date[0]
                    case = {'part': 'a', 'type': kind, 'date': list(date), 'us': us, 'offset': off}
                    d = datetime.datetime(*date, us, tzinfo=tzinfo_of(off))
                    dom = in_domain(kind, y, us)
                    ctx.case(('a', kind, date, us, off), off not in (None, 0) or us != 0)
                    ctx.stats['a:%s:%s' % (kind, 'in-domain' if dom else 'outside-precision-or-year-window')] += 1
                    finding = 'F11' if f11_class(off) else ('F26' if f26_class(kind, y) else None)
                    try:
                        text = str(T.fromDateTime(d))
                    except Exception as e:
                        ctx.prop_fail('fromDateTime raised %s' % type(e).__name__, case, finding)
                        continue
                    case['text'] = text
                    back = as_datetime(T, text)
                    case['back'] = repr(back)
                    if dom:
                        want_off = off or 0
                        if back[0] != 'ok':
                            ctx.prop_fail('%s: fromDateTime text is refused by asDateTime' % kind, case, finding)
                        else:
                            f = back[1]
                            if f[7] != want_off:
                                ctx.prop_fail('%s: round trip changes the UTC offset' % kind, case, finding)
                            elif not isinstance(f[7], int) or micros_since_epoch(*f) != micros_since_epoch(*date, us, off):
                                ctx.prop_fail('%s: round trip changes the instant' % kind, case, finding)
                    dtl = cdt(*date, us, off)
                    if len(exprs) % 7 == 0:
                        # the theorem's hypotheses, as evaluated by Coq, select the same cases as the harness
                        exprs.append('Bool.eqb (valid_dt %s && in_domain %s %s) %s' % (dtl, K, dtl, coqio.cbool(dom)))
                        meta.append(dict(case, cmp='theorem-hypotheses', finding=None))
                    exprs.append('text_eqb (from_dt %s %s) %s' % (K, dtl, ctext(text)))
                    meta.append(dict(case, cmp='from_dt', finding=finding))
                    rl = cres_dt(back)
                    if rl is not None:
                        exprs.append('let r := as_dt %s %s in is_unmodelled r || res_eqb dt_eqb r %s' % (K, ctext(text), rl))
                        meta.append(dict(case, cmp='as_dt', finding=finding))
                        if dom and not finding:
                            # the theorem's own conclusion, on the model
                            exprs.append('res_eqb dt_eqb (as_dt %s (from_dt %s %s)) (Ok (norm_dt %s %s))' % (K, K, dtl, K, dtl))
                            meta.append(dict(case, cmp='roundtrip-theorem-instance', finding=None))
    # tzinfo objects with daylight saving (utcoffset() already includes dst(); dst() non-zero part of the year; a zone
    # name): what counts is the instant and the offset utcoffset() reports, so the text must be the one produced for the
    # same datetime under a fixed-offset zone with that offset (which the cases above tie to the model)
    class _Dst(datetime.tzinfo):
        def __init__(self, std, dst, summer): self.std, self.d, self.summer = std, dst, summer
        def _is_dst(self, dt): return dt is not None and dt.month in self.summer
        def utcoffset(self, dt): return datetime.timedelta(minutes=self.std + (self.d if self._is_dst(dt) else 0))
        def dst(self, dt): return datetime.timedelta(minutes=self.d if self._is_dst(dt) else 0)
        def tzname(self, dt): return 'X%sT' % ('D' if self._is_dst(dt) else 'S')
    for std, dst, summer in ((60, 60, (4, 5, 6, 7, 8, 9)), (-300, 60, (3, 4, 5, 6, 7, 8, 9, 10)), (570, 30, (1, 2, 11, 12)), (0, 60, (7,)), (120, -60, (1, 2, 12))):
        z = _Dst(std, dst, summer)
        for date in dates[:40]:
            for us in MICROS[:3]:
                for kind in 'GU':
                    T, K = TYPES[kind]
                    try:
                        d = datetime.datetime(*date, us, tzinfo=z)
                        fixed = d.replace(tzinfo=datetime.timezone(d.utcoffset()))
                    except Exception:
                        continue
                    case = {'part': 'a-dst', 'type': kind, 'date': list(date), 'us': us, 'zone': [std, dst, list(summer)]}
                    ctx.case(('a-dst', kind, date, us, std, dst), True)
                    ctx.stats['a:dst-zones'] += 1
                    try:
                        t1, t2 = str(T.fromDateTime(d)), str(T.fromDateTime(fixed))
                    except Exception as e:
                        ctx.prop_fail('fromDateTime raised %s for a daylight-saving zone' % type(e).__name__, case); continue
                    if t1 != t2:
                        ctx.prop_fail('%s: a zone with daylight saving gives another text than the fixed-offset zone of the same offset (instant or offset changed)' % kind,
                                      dict(case, text=t1, fixed_offset_text=t2))
    ctx.sample(meta[7]); ctx.sample(meta[-1])
    ctx.stats['a:dates'] = len(dates)
    return exprs, meta


# ------------------------------------------------------------------------------------------------
def fractions_for(rng, L, exhaustive):
    if L == 0:
        return ['']
    out = set()
    if exhaustive:
        out.update(''.join(t) for t in itertools.product('015', repeat=L))
    nz = '123456789'
    rnd = lambda n: ''.join(rng.choice('0123456789') for _ in range(n))
    out.add(rnd(L - 1) + rng.choice(nz))                    # no trailing zero
    out.add(rng.choice(nz) * L)                             # no zero at all
    out.add('0' * L)                                        # all zeros
    out.add(rnd(L))
    if L >= 2:
        out.add(rng.choice(nz) + '0' * (L - 1))             # trailing zeros only
        out.add('0' * (L - 1) + rng.choice(nz))             # leading zeros
        out.add(rnd(L - 1) + '0')                           # forced trailing zero
    if L >= 3:
        out.add(rng.choice(nz) + '0' + rnd(L - 3) + rng.choice(nz))   # interior zero
        k = rng.randint(1, L - 1)
        out.add(''.join(rng.choice(nz) for _ in range(k)) + '0' * (L - k))
    return sorted(out)


def grammar_strings(ctx):
    """[(kind, string, in_grammar_by_construction)]"""
    rng = ctx.rng
    out = []
    gdates = ['20170801', '20000229', '99991231', '00010101', '19991231', '%04d%02d%02d' % (rng.randint(1, 9999), rng.randint(1, 12), rng.randint(1, 28))]
    times = [('12', '01', '12'), ('23', '59', '59'), ('00', '00', '00'),
             ('%02d' % rng.randint(0, 23), '%02d' % rng.randint(0, 59), '%02d' % rng.randint(0, 59))]
    gzones = ['Z', '', '+0000', '+0100', '-0100', '+0530', '-0330', '+1400', '-1200', '+01', '-05', '+14']
    thorough = ctx.tier == 'thorough'
    core_set, extended = [], []
    first = True
    for date in gdates:
        for (h, m, s) in times:
            for form in (h, h + m, h + m + s):
                for sep in ('', '.', ','):
                    for L in ([0] if sep == '' else range(1, 7)):
                        exh = first and sep == '.' and (L <= 6 if thorough else L <= 4)
                        for fr in fractions_for(rng, L, exh):
                            zones = gzones if (first and len(fr) <= 2) or not fr or rng.random() < 0.3 else ['Z', rng.choice(gzones[1:])]
                            if exh and len(fr) > 2:
                                zones = ['Z']
                            for z in zones:
                                (core_set if first else extended).append(('G', date + form + sep + fr + z, True))
            first = False
    rng.shuffle(extended)
    out = core_set + extended[:ctx.n(400, 12000)]
    udates = ['170801', '991231', '000229', '500101', '491231', '680101', '690101', '%02d%02d%02d' % (rng.randint(0, 99), rng.randint(1, 12), rng.randint(1, 28))]
    uzones = ['Z', '+0000', '+0100', '-0100', '+0530', '-0330', '+1400', '-1200']
    for date in udates:
        for (h, m, s) in times:
            for form in (h + m, h + m + s):
                for z in uzones:
                    out.append(('U', date + form + z, True))
                for z in ('', '+01', '-05'):                              # not X.680 forms of UTCTime
                    out.append(('U', date + form + z, False))
                for fr in ('.5', '.0', '.50', ',5', '.'):                 # UTCTime has no fraction
                    out.append(('U', date + form + fr + 'Z', False))
    # outside the grammar, for the correspondence of the three functions only
    junk = ['', 'Z', '.Z', '20170801120112.Z', '201708011201.Z', '2017080112011..0Z', '20170801120112..Z',
            '20170801120112.5.0Z', '20170801120112.0.5Z', '2017080112011Z', '2017080112011', '20170801120160Z',
            '20170229120000Z', '20171301120000Z', '20170801240000Z', '00000101000000Z', '20170801120112.5+0100Z',
            '20170801120112+01000', '20170801120112+0a00', '20170801120112-01-0', '20170801120112+-100',
            '20170801120112+ 100', '20170801120112.+5Z', '20170801120112. 5Z', '20170801120112.5_0Z',
            '20170801120112.999999Z', '20170801120112.1000Z', '20170801120112.0000001Z', '2017080112011 Z',
            '2017080 1120112Z', '201708011201120Z', '20170801Z', '201708011Z', 'ABCDEFGHIJKLMN.000Z',
            '20170801120112.00000Z', '20170801120112.10000Z', '201708011201.12340Z', '20170801120112.0990Z',
            '20170801120112.099Z', '20170801120112.59Z', '20170801120112.000Z']     # witnesses of F12 / F27, pinned cases
    for s in junk:
        out.append(('G', s, False))
        out.append(('U', s[2:] if len(s) > 2 else s, False))
    seen, uniq = set(), []
    for t in out:
        if t[:2] not in seen:
            seen.add(t[:2]); uniq.append(t)
    return uniq


def frac_of(s):
    """digits between the first '.' and the final Z, or None"""
    if not s.endswith('Z') or '.' not in s:
        return None
    return s[s.index('.') + 1:-1]


def f12_class(s):
    """a '0' among the first four characters after the dot is followed by a non-zero digit"""
    fr = frac_of(s)
    return bool(fr) and any(fr[i] == '0' and fr[i + 1:].strip('0') != '' for i in range(min(4, len(fr))))


def f27_class(s):
    """the fraction is longer than four digits and ends in zero"""
    fr = frac_of(s)
    return bool(fr) and len(fr) > 4 and fr.endswith('0')


def run_encoder(enc, T, s):
    """('ok', content str) | ('err', class)"""
    try:
        b = enc.encode(T(s))
    except Exception as e:
        return ('err', exc_class(e))
    if len(b) < 2 or b[1] >= 128 or len(b) != 2 + b[1]:
        return ('err', '(ECrash RuntimeError)')      # not a short primitive TLV: never expected
    return ('ok', b[2:].decode('latin-1'))


def part_b(ctx):
    exprs, meta = [], []
    strings = grammar_strings(ctx)
    for kind, s, _ in strings:
        T, K = TYPES[kind]
        case = {'part': 'b', 'type': kind, 'string': s}
        inst = x680time.instant(kind, s)
        ctx.stats['b:%s:%s' % (kind, 'in-grammar' if inst else 'outside-grammar')] += 1
        ctx.case(('b', kind, s), '.' in s or ',' in s or not s.endswith('Z'))
        # the X.680 reading itself: Coq spec against the independent Python reader
        il = 'None' if inst is None else '(Some (%s, Qmake (%d)%%Z %d%%positive))' % (
            coqio.cbool(inst[0]), inst[1].numerator, inst[1].denominator)
        exprs.append('inst_eqb (instant %s %s) %s' % (K, ctext(s), il))
        meta.append(dict(case, cmp='x680-instant', finding=None))
        for codec, enc, tbl in (('CER', cer_enc, 'cer_enc_tag_map'), ('DER', der_enc, 'der_enc_tag_map')):
            r = run_encoder(enc, T, s)
            c2 = dict(case, codec=codec, result=repr(r))
            ctx.stats['b:%s:%s' % (codec, 'accepted' if r[0] == 'ok' else 'refused')] += 1
            if inst is not None:
                utc = s.endswith('Z')
                if not utc and r[0] == 'ok':
                    ctx.prop_fail('%s encoder accepts a value that is not in UTC' % codec, c2)
                if r[0] == 'ok':
                    o = r[1]
                    if not x680time.canonical(o):
                        ctx.prop_fail('%s encoder emits a non-canonical time string (trailing zero in the fraction)' % codec,
                                      c2, 'F27' if f27_class(s) else None)
                    if x680time.instant(kind, o) != inst:
                        ctx.prop_fail('%s encoder emits a time string denoting another instant' % codec,
                                      c2, 'F12' if f12_class(s) else None)
            exprs.append('res_eqb text_eqb (time_enc_tbl %s %s %s) %s' % (
                tbl, K, ctext(s), '(Ok %s)' % ctext(r[1]) if r[0] == 'ok' else '(Err %s)' % r[1]))
            meta.append(dict(c2, cmp='time_enc', finding=None))
        if frac_of(s) is not None and set(s) <= set('0123456789.Z') and s.count('.') == 1:
            # the class predicates of F12 / F27: harness and Coq versions agree
            exprs.append('Bool.eqb (zeros_only_trailing 4 (frac_of %s)) %s && Bool.eqb (no_far_trailing_zero (frac_of %s)) %s' % (
                ctext(s), coqio.cbool(not f12_class(s)), ctext(s), coqio.cbool(not f27_class(s))))
            meta.append(dict(case, cmp='finding-class-predicates', finding=None))
        back = as_datetime(T, s)
        rl = cres_dt(back)
        if rl is not None:
            exprs.append('let r := as_dt %s %s in is_unmodelled r || res_eqb dt_eqb r %s' % (K, ctext(s), rl))
            meta.append(dict(case, cmp='as_dt', back=repr(back), finding=None))
            if inst is None:      # strings of the grammar always have 2-digit groups: never unmodelled
                exprs.append('negb (is_unmodelled (as_dt %s %s))' % (K, ctext(s)))
                meta.append(dict(case, cmp='count-unmodelled', finding=None))
    ctx.sample(meta[3]); ctx.sample(meta[len(meta) // 2])
    return exprs, meta


def run(ctx):
    x680time.self_test()
    ctx.rule = ('(a) every date of a fixed list (year bounds 1/9999, <1000, leap days, month ends, UTCTime window edges '
                '1950/2049/1969/2068) plus random dates x microseconds {0,1000,5000,50000,120000,999000} x offsets '
                '{none,0,+-1,+-30,+-60,+-90,+-330,+-840 min} x {GeneralizedTime,UTCTime}: fromDateTime then asDateTime; '
                'non-trivial = non-zero offset or sub-second part. (b) X.680 time strings (HH/HHMM/HHMMSS, fraction '
                'lengths 0..6 with dot or comma incl. all strings over {0,1,5} of length<=4 (thorough: <=6), '
                'Z/+-hhmm/+-hh/local) through the CER and DER encoders and asDateTime; non-trivial = fraction or non-UTC')
    ea, ma = part_a(ctx)
    eb, mb = part_b(ctx)
    exprs, meta = ea + eb, ma + mb
    bad = core.coq_bools('c20', IMPORTS, exprs, defs=DEFS, shard=500)
    for i in bad:
        m = meta[i]
        if m['cmp'] == 'count-unmodelled':
            ctx.stats['b:as_dt-unmodelled-skipped'] += 1
            continue
        ctx.corr_fail('model and implementation disagree on %s' % m['cmp'], m, m.get('finding'))
    ctx.notes.append('UTCTime carries two year digits; asDateTime reads them with strptime %y (69..99 -> 19xx, 00..68 -> 20xx), '
                     'so the round trip is only claimed for years 1969..2068; other years are compared with the model only')
    ctx.notes.append('fromDateTime writes milliseconds as ".%d" (5 ms -> ".5", pinned by tests/type/test_useful.py) and asDateTime '
                     'reads them back the same way; the round trip is judged on what asDateTime returns, not on the X.680 reading of the text')


def replay(data):
    import json
    case = data.get('case', data)
    print(json.dumps(case, indent=1, default=repr))
    kind = case.get('type')
    if kind not in TYPES:
        return 0
    T, K = TYPES[kind]
    if case.get('part') == 'a':
        d = datetime.datetime(*case['date'], case['us'], tzinfo=tzinfo_of(case['offset']))
        text = str(T.fromDateTime(d))
        print('implementation: fromDateTime ->', repr(text), ' asDateTime ->', as_datetime(T, text))
        dtl = cdt(*case['date'], case['us'], case['offset'])
        print('model:', core.coq_show(IMPORTS, '(from_dt %s %s, as_dt %s (from_dt %s %s))' % (K, dtl, K, K, dtl)))
    else:
        s = case['string']
        for codec, enc, tbl in (('CER', cer_enc, 'cer_enc_tag_map'), ('DER', der_enc, 'der_enc_tag_map')):
            print('implementation %s:' % codec, run_encoder(enc, T, s))
            print('model %s:' % codec, core.coq_show(IMPORTS, 'time_enc_tbl %s %s %s' % (tbl, K, ctext(s))))
        print('X.680 instant (python reader):', x680time.instant(kind, s))
        print('implementation asDateTime:', as_datetime(T, s))
        print('model as_dt:', core.coq_show(IMPORTS, 'as_dt %s %s' % (K, ctext(s))))
    return 0

"""C08 - malformed input fails cleanly: only library errors, always terminates."""
import itertools
from harness import core, codec, universe as U, implrun as I, streams, gen
from harness.coqio import cbytes, cnat
from pyasn1.type import base, univ
from pyasn1 import error

ALPHABET = [0x00, 0x01, 0x02, 0x03, 0x04, 0x05, 0x06, 0x09, 0x0c, 0x1f, 0x23, 0x24, 0x30, 0x31, 0x80, 0x81, 0xa0, 0xff]

SPECS = [
    None,
    ('int',), ('octs',), ('bits',), ('bool',), ('null',), ('oid',), ('real',), ('str', 'UTF8String'),
    ('seq', [('req', ('int',)), ('opt', ('octs',)), (('def', ('b', True)), ('bool',))]),
    ('set', [('req', ('int',)), ('opt', ('exp', (128, 0, 0), ('octs',)))]),
    ('seqof', ('int',)),
    ('choice', [('int',), ('octs',), ('seq', [('req', ('null',))])]),
    ('any',),
    ('exp', (128, 0, 0), ('int',)),
    ('imp', (128, 0, 1), ('seqof', ('bool',))),
    ('exp', (128, 0, 0), ('choice', [('int',), ('octs',), ('seqof', ('null',))])),
    ('seq', [('req', ('exp', (128, 0, 0), ('choice', [('int',), ('octs',)]))), ('req', ('null',))]),
]


STRUCT = [
    (('seq', [('req', ('int',)), ('req', ('octs',))]), ('rec', [('i', 5), ('o', b'a')])),
    (('set', [('req', ('int',)), ('req', ('octs',))]), ('rec', [('i', 5), ('o', b'a')])),
    (('seq', [('req', ('int',)), ('opt', ('octs',)), (('def', ('b', True)), ('bool',))]), ('rec', [('i', 5), ('o', b'a'), ('b', False)])),
    (('set', [('req', ('int',)), ('opt', ('exp', (128, 0, 0), ('octs',)))]), ('rec', [('i', 5), ('o', b'a')])),
    (('seqof', ('int',)), ('list', [('i', 1), ('i', 2)])),
    (('setof', ('octs',)), ('list', [('o', b'a'), ('o', b'b')])),
    (('seq', [('req', ('seq', [('req', ('null',)), ('req', ('int',))])), ('req', ('seqof', ('bool',)))]), ('rec', [('rec', [('null',), ('i', 1)]), ('list', [('b', True)])])),
    (('choice', [('int',), ('octs',), ('seq', [('req', ('null',))])]), ('ch', 2, ('rec', [('null',)]))),
    (('exp', (128, 0, 0), ('seq', [('req', ('int',)), ('req', ('null',))])), ('rec', [('i', 5), ('null',)])),
    (('imp', (128, 0, 1), ('set', [('req', ('bool',)), ('req', ('int',))])), ('rec', [('b', True), ('i', 5)])),
    (('seq', [('req', ('exp', (128, 0, 0), ('choice', [('int',), ('octs',)]))), ('req', ('null',))]), ('rec', [('ch', 0, ('i', 5)), ('null',)])),
    (('seq', [('req', ('int',)), ('opt', ('any',))]), ('rec', [('i', 5), ('any', b'\x05\x00')])),
    (('seqof', ('seq', [('req', ('int',)), ('req', ('int',))])), ('list', [('rec', [('i', 1), ('i', 2)]), ('rec', [('i', 3), ('i', 4)])])),
]


def outcome(cdc, data, spec_desc, spec_obj):
    """canonical outcome of one-shot decoding: ('ok', abs or None, rest) | ('lib', cls) | ('crash', cls) | ('bad-value', what)"""
    d = I.run_decode(cdc, data, **({'asn1Spec': spec_obj} if spec_obj is not None else {}))
    if d[0] == 'ok':
        v = d[1]
        if v is None or v is base.noValue or not isinstance(v, base.Asn1Item):
            return ('bad-value', type(v).__name__)
        try:
            if not v.isValue:
                return ('bad-value', 'schema object')
        except Exception as e:
            return ('bad-value', 'isValue raised %s' % type(e).__name__)
        a = U.absval_top(v, spec_desc) if spec_desc is not None else None
        return ('ok', a, d[2])
    if I.is_library(d[1]):
        return ('lib', d[1])
    return ('crash', d[1], d[2])


def reads_count(cdc, data, spec_obj):
    s = streams.Growing(); s.arrive(data); s.close_input()
    try:
        streams.drive(I.DEC[cdc], s, [], spec=spec_obj, max_steps=10000)
    except Exception:
        pass
    return len(s.log)


def mutants(rng, e, n):
    out = []
    for _ in range(n):
        b = bytearray(e)
        k = rng.choice(['flip', 'ins', 'del', 'tag', 'len', 'trunc', 'dup'])
        if not b: k = 'ins'
        i = rng.randrange(len(b)) if b else 0
        if k == 'flip': b[i] ^= 1 << rng.randrange(8)
        elif k == 'ins': b.insert(i, rng.choice(ALPHABET))
        elif k == 'del': del b[i]
        elif k == 'tag': b[i] = rng.choice(ALPHABET)
        elif k == 'len': b[i] = rng.choice([0, 1, 0x7f, 0x80, 0x81, 0x82, 0x84, 0x88, 0xff])
        elif k == 'trunc': b = b[:i]
        elif k == 'dup': b = b[:i] + b[i:i + 3] + b[i:]
        out.append(bytes(b))
    return out


FINDINGS = {}


def classify(oc, data, cdc):
    """known crash classes, decided on the input and the crash kind"""
    if oc[0] == 'crash':
        if 'MemoryError' in str(oc): return 'F22'
    return None


def run(ctx):
    ctx.rule = ('all byte strings of length <= 2 (quick) / <= 3 (thorough) over 18 structural octets, and mutants (bit flip, insert, delete, '
                'tag/length rewrite, truncation, duplication) of valid encodings; primitive contents over 14 significant octets and a sweep of all 256 first contents octets of BIT STRING/OID/REAL; constructed strings holding one or two of 21 odd segments; every single structural edit (member added in front/at the end, removed, repeated, swapped, node emptied, length form switched, at every constructed node) of definite, indefinite, CER and DER encodings of 13 container types; REAL character forms over 36 texts (incl. nan, inf, underscores, blanks); 7 constrained guiding types (alone, as SEQUENCE OF member, under a violated SIZE constraint) with violating contents of 1..5000 octets; numbers of thousands of digits (tag numbers, OID arcs, INTEGERs) next to a surplus/missing/mistyped member, a truncated arc or a violated union/exclusion constraint; BER, CER and DER decoders, one-shot and streaming; 17 guiding '
                'types and none; outcome must be a value object + remainder or a PyAsn1Error; reads bounded by 8*len+16; non-trivial = length >= 2')
    search_only = getattr(ctx, 'search_only', False)
    specs = [(sd, U.build_type(sd) if sd is not None else None, U.coq_ty(sd) if sd is not None else None) for sd in SPECS]
    inputs = []
    maxlen = 2 if ctx.tier == 'quick' else 3
    for n in range(0, maxlen + 1):
        for t in itertools.product(ALPHABET, repeat=n):
            inputs.append(('exh', bytes(t)))
    ctx.exhaustive = False
    cases = codec.gen_cases(ctx, ctx.n(80, 800), depth=2)
    for c in cases:
        e = I.run_encode(ctx.rng.choice(['BER', 'DER', 'CER']), c.obj)
        if e[0] != 'ok': continue
        for m in mutants(ctx.rng, e[1], 6):
            inputs.append(('mut', m, c))
    # minimised past failures run first (each must now end in a library error)
    for h in ('23020300', '0488ffffffffffffffff', '030103', '2305030103', '30800201050201060000', 'a0800000', '3000', '30023000',
              '24800401610000', '0902030a', 'a0800000', '3006a08000000500', '3080a080000005000000', '2300', '23802300030201fe0000', '06018' + '0', '0602ff7f', '7f', '1f8000', '0484ffffffff', '238003000000'):
        inputs.insert(0, ('exh', bytes.fromhex(h)))
    # structured: every universal primitive tag with contents over a small alphabet of octets that matter
    # to some contents decoder (REAL first octets, exponent forms, BIT STRING pad counts, 0x80 in OIDs ...)
    CONT = [0x00, 0x01, 0x02, 0x03, 0x07, 0x08, 0x40, 0x41, 0x7f, 0x80, 0x81, 0x83, 0xc3, 0xff]
    PRIM = {1: ('bool',), 2: ('int',), 3: ('bits',), 4: ('octs',), 5: ('null',), 6: ('oid',), 9: ('real',), 10: ('enum',), 12: ('str', 'UTF8String'), 22: ('str', 'IA5String')}
    for tg, sd in PRIM.items():
        conts = [()] + [(a,) for a in CONT] + [(a, b) for a in CONT for b in CONT]
        conts += [tuple(ctx.rng.choice(CONT) for _ in range(ctx.rng.randint(3, 6))) for _ in range(ctx.n(60, 600) if tg in (3, 6, 9) else ctx.n(10, 100))]
        for ct in conts:
            if len(ct) >= 2 and ctx.tier == 'quick' and tg not in (3, 6, 9) and ctx.rng.random() < 0.6:
                continue
            inputs.append(('str', bytes([tg, len(ct)]) + bytes(ct), sd))
    # sweep: every first contents octet of BIT STRING / OBJECT IDENTIFIER / REAL, with a small set of
    # second and third octets (count octets 0 and 1, sign bits, continuation bits); quick takes a third
    for tg in (3, 6, 9):
        sd = PRIM[tg]
        for a in range(256):
            for b2 in (0x00, 0x01, 0x02, 0x80, 0xff):
                for c3 in (None, 0x00, 0x01, 0xff):
                    if ctx.tier == 'quick' and ctx.rng.random() < 0.67:
                        continue
                    ct = bytes([a, b2] + ([c3] if c3 is not None else []))
                    inputs.append(('str', bytes([tg, len(ct)]) + ct, sd))
    # constructed strings whose segments are not what they should be: each string type in constructed form (definite and
    # indefinite), holding one or two "segments" drawn from a set of odd TLVs
    ODD = [b'', b'\x04\x00', b'\x04\x02AB', b'\x03\x02\x00A', b'\x0c\x01A', b'\x02\x01\x05', b'\x05\x00', b'\x84\x02AB', b'\xa4\x02AB',
           b'\xa4\x04\x04\x02AB', b'\xa4\x80\x04\x02AB\x00\x00', b'\xa4\x80AB', b'\x24\x04\x04\x02AB', b'\x24\x80\x04\x01A\x00\x00',
           b'\x64\x02AB', b'\xe4\x00', b'\x30\x00', b'\x00\x00', b'\x04\x81\x01A', b'\x1f\x04\x01A', b'\xbf\x1f\x02AB']
    STRS = {0x24: ('octs',), 0x23: ('bits',), 0x2c: ('str', 'UTF8String'), 0x36: ('str', 'IA5String')}
    for tg, sd in STRS.items():
        pairs = [(a,) for a in ODD] + [(a, b2) for a in ODD for b2 in ODD if ctx.tier != 'quick' or ctx.rng.random() < 0.25]
        for segs in pairs:
            body = b''.join(segs)
            if len(body) < 128:
                inputs.append(('str', bytes([tg, len(body)]) + body, sd))
            inputs.append(('str', bytes([tg, 0x80]) + body + b'\x00\x00', sd))
    # segments whose octets are not text of the string type's repertoire / encoding (the refusal is raised where the
    # assembled segments meet the type, not where a primitive string does): every character and time type, one to three
    # segments, the offending octets first / last / split across two segments, definite and indefinite
    BADTXT = [b'\xff\xfe', b'\xc3', b'\xed\xa0\x80', b'\x80', b'\xd8\x00', b'\x00\x11\x00\x00', b'A\xe9', b'\xf4\x90\x80\x80']
    ALLSTR = {0x2c: 'UTF8String', 0x32: 'NumericString', 0x33: 'PrintableString', 0x36: 'IA5String', 0x3a: 'VisibleString', 0x3e: 'BMPString',
              0x3c: 'UniversalString', 0x39: 'GraphicString', 0x3b: 'GeneralString', 0x38: 'GeneralizedTime', 0x37: 'UTCTime', 0x27: 'ObjectDescriptor'}
    for tg, nm in ALLSTR.items():
        for bad in BADTXT:
            seg = lambda x: bytes([4, len(x)]) + x
            for body in (seg(bad), seg(b'AB') + seg(bad), seg(bad) + seg(b'AB'), seg(bad[:1]) + seg(bad[1:]), seg(b'') + seg(bad) + seg(b'')):
                inputs.append(('str', bytes([tg, len(body)]) + body, ('str', nm)))
                inputs.append(('str', bytes([tg, 0x80]) + body + b'\x00\x00', ('str', nm)))
                inputs.append(('str', bytes([0xa5, len(body) + 2, tg, len(body)]) + body, ('exp', (128, 0, 5), ('str', nm))))
    # REAL in character form (ISO 6093 NR1-3): text the number parser of the host language may accept beyond the standard's syntax
    TEXTS = [b'1', b'-1', b'+1', b'1.', b'1.5', b'.5', b'1e5', b'1E-5', b'1.e', b'e5', b'', b' 1', b'1 ', b'1\n', b'1_2', b'0x10', b'nan', b'NaN',
             b'-nan', b'inf', b'-inf', b'Infinity', b'1e999', b'-1e999', b'1e-999', b'1,5', b'--1', b'1e', b'\xd9\xa1', b'\x00', b'1\x00',
             b'1' + b'0' * 400, b'-25' + b'0' * 350, b'9' * 330, b'1' + b'0' * 200 + b'.0', b'0.' + b'0' * 400 + b'1']
    for nr in (1, 2, 3, 0, 4, 0x3f):
        for t in TEXTS:
            if ctx.tier == 'quick' and ctx.rng.random() < 0.5:
                continue
            ct = bytes([nr]) + t
            hdr = bytes([9, len(ct)]) if len(ct) < 128 else bytes([9, 0x82, len(ct) >> 8, len(ct) & 255])
            inputs.append(('str', hdr + ct, ('real',)))
    # structural edits: valid encodings (definite, indefinite, CER, DER) of container types - all members mandatory, with
    # OPTIONAL/DEFAULT members, nested, tagged, CHOICE - with, at every constructed node, a member added in front / at the
    # end, removed, repeated, swapped with its neighbour, the node emptied, its length form switched
    from harness import tlvtree
    n_struct = 0
    for sd, v in STRUCT:
        try:
            c = codec.Case(sd, v)
        except Exception:
            continue
        for cdc, kw in (('BER', {}), ('BER', dict(defMode=False)), ('CER', {}), ('DER', {})):
            e = I.run_encode(cdc, c.obj, **kw)
            if e[0] != 'ok':
                continue
            try:
                tree = tlvtree.parse(e[1])
            except ValueError:
                continue
            for what, data in tlvtree.structural_edits(tree):
                n_struct += 1
                if ctx.tier == 'quick' and (n_struct + ctx.seed) % 2:
                    continue
                inputs.append(('struct', data, c, cdc))
    exprs, meta = [], []
    for item in inputs:
        data = item[1]
        if item[0] == 'exh':
            spec_list = specs if len(data) <= 2 else [specs[0]] + ctx.rng.sample(specs[1:], 3)
            decs = ['BER', 'CER', 'DER'] if len(data) <= 2 else [ctx.rng.choice(['BER', 'CER', 'DER'])]
        elif item[0] == 'str':
            sd0 = item[2]
            spec_list = [(sd0, U.build_type(sd0), U.coq_ty(sd0)), specs[0]]
            decs = [ctx.rng.choice(['BER', 'CER', 'DER'])]
        elif item[0] == 'struct':
            c = item[2]
            spec_list = [(c.T, c.spec, c.cty), specs[0]]
            decs = [item[3]] + ([ctx.rng.choice(['BER', 'CER', 'DER'])] if ctx.tier != 'quick' else [])
        else:
            c = item[2]
            spec_list = [(c.T, c.spec, c.cty), specs[0]]
            decs = [ctx.rng.choice(['BER', 'CER', 'DER'])]
        for cdc in decs:
            for sd, so, sc in spec_list:
                oc = outcome(cdc, data, sd, so)
                ctx.case((cdc, data, sc), len(data) >= 2)
                ctx.stats['outcome:' + oc[0]] += 1
                ctx.stats['source:' + item[0]] += 1
                m = {'decoder': cdc, 'bytes': data.hex(), 'spec': sd, 'outcome': oc[:2]}
                if oc[0] in ('crash', 'bad-value'):
                    ctx.prop_fail('%s decoder %s on malformed input: %s' % (cdc, 'returned a non-value' if oc[0] == 'bad-value' else 'let a non-library exception escape', oc[1]),
                                  m, finding=classify(oc, data, cdc))
                if ctx.rng.random() < 0.1:
                    n = reads_count(cdc, data, so)
                    if n > 8 * len(data) + 16:
                        ctx.prop_fail('decoder made %d stream reads on %d octets' % (n, len(data)), m)
                if not search_only and sd is not None and ctx.rng.random() < (1.0 if item[0] in ('mut', 'str', 'struct') else 0.35):
                    if oc[0] == 'ok':
                        lit = '(Ok (%s, %s))' % (U.coq_aval(oc[1]), cbytes(oc[2]))
                    elif oc[0] == 'bad-value':
                        lit = '(Ok (ABad, []))'
                    else:
                        lit = '(Err %s)' % oc[1]
                    exprs.append('mal_code %s (decode %s (Some %s) %s) %s' % (sc, cdc, sc, cbytes(data), lit))
                    meta.append(m)
    # guiding types with constraints, values that violate them, contents of every size class up to a few thousand octets
    # (a refusal has to be the library's error whatever the size of the offending value): implementation only
    from pyasn1.type import univ as _u, constraint as _c, char as _ch
    rng_int = _u.Integer().subtype(subtypeSpec=_c.ValueRangeConstraint(0, 10))
    cspecs = [('INTEGER (0..10)', rng_int, 2),
              ('INTEGER (5)', _u.Integer().subtype(subtypeSpec=_c.SingleValueConstraint(5)), 2),
              ('OCTET STRING (SIZE(1..3))', _u.OctetString().subtype(subtypeSpec=_c.ValueSizeConstraint(1, 3)), 4),
              ('BIT STRING (SIZE(1..3))', _u.BitString().subtype(subtypeSpec=_c.ValueSizeConstraint(1, 3)), 3),
              ('UTF8String (SIZE(1..3))', _ch.UTF8String().subtype(subtypeSpec=_c.ValueSizeConstraint(1, 3)), 12),
              ('PrintableString (FROM ("ab"))', _ch.PrintableString().subtype(subtypeSpec=_c.PermittedAlphabetConstraint('a', 'b')), 19),
              ('ENUMERATED (0..10)', _u.Enumerated().subtype(subtypeSpec=_c.ValueRangeConstraint(0, 10)), 10)]
    def _hdr(tg, n):
        return bytes([tg, n]) if n < 128 else bytes([tg, 0x82, n >> 8, n & 255])
    # numbers of thousands of digits wherever the input can put a number, next to something wrong: tag numbers, OID arcs
    # before a truncated arc, an INTEGER before a surplus / missing / mistyped member (definite and indefinite), a violated
    # union / nested constraint - the refusal must be the library's error however large the number is
    from pyasn1.type import namedtype as _nt
    huge_int = _hdr(2, 2048) + b'\x7f' + b'\x11' * 2047
    big128 = b'\x81' * 2100 + b'\x01'
    seq1 = _u.Sequence(componentType=_nt.NamedTypes(_nt.NamedType('a', _u.Integer())))
    seq2 = _u.Sequence(componentType=_nt.NamedTypes(_nt.NamedType('a', _u.Integer()), _nt.OptionalNamedType('b', _u.OctetString())))
    seq3 = _u.Sequence(componentType=_nt.NamedTypes(_nt.NamedType('a', _u.Integer()), _nt.NamedType('b', _u.Null())))
    set1 = _u.Set(componentType=_nt.NamedTypes(_nt.NamedType('a', _u.Integer()), _nt.NamedType('b', _u.Null())))
    uni = _u.Integer().subtype(subtypeSpec=_c.ConstraintsUnion(_c.ValueRangeConstraint(0, 10), _c.SingleValueConstraint(20)))
    exc = _u.Integer().subtype(subtypeSpec=_c.ConstraintsIntersection(_c.ConstraintsUnion(_c.ValueRangeConstraint(0, 10), _c.ValueRangeConstraint(20, 30)), _c.ConstraintsExclusion(_c.SingleValueConstraint(5))))
    def _wrap(tg, body, indef):
        return bytes([tg, 0x80]) + body + b'\x00\x00' if indef else _hdr(tg, len(body)) + body
    huge = []
    for lead in (0x1f, 0x3f, 0x5f, 0x9f, 0xbf, 0xdf):
        for tail in (b'\x01\x00', b'\x00', b'', b'\x80\x00\x00'):
            for nm, sp in (('none', None), ('INTEGER', _u.Integer()), ('SEQUENCE {INTEGER}', seq1), ('ANY', _u.Any())):
                huge.append(('tag number of 2100 base-128 digits, guided by ' + nm, sp, bytes([lead]) + big128 + tail))
    for oidc in (b'\x2a' + big128 + b'\x81', b'\x2a' + big128, big128 + b'\x81', b'\x2a' + big128 + b'\x80\x01', b'\x81' * 2100):
        for nm, sp in (('none', None), ('OBJECT IDENTIFIER', _u.ObjectIdentifier())):
            huge.append(('OID with an arc of 2100 base-128 digits, guided by ' + nm, sp, _hdr(6, len(oidc)) + oidc))
    for indef in (False, True):
        for nm, sp in (('SEQUENCE {INTEGER}', seq1), ('SEQUENCE {INTEGER, OCTET STRING OPTIONAL}', seq2), ('SEQUENCE {INTEGER, NULL}', seq3), ('SET {INTEGER, NULL}', set1), ('none', None)):
            for extra in (b'\x05\x00', b'\x02\x01\x05', b'', b'\x04\x01', huge_int, b'\x01\x01\xff'):
                huge.append(('2048-octet INTEGER then %s in a %s container, guided by %s' % (extra[:3].hex() or 'nothing', 'indefinite' if indef else 'definite', nm),
                             sp, _wrap(0x31 if nm.startswith('SET') else 0x30, huge_int + extra, indef)))
    for nm, sp in (('INTEGER (0..10 | 20)', uni), ('INTEGER ((0..10 | 20..30) ^ ALL EXCEPT 5)', exc), ('SEQUENCE OF INTEGER (0..10 | 20)', _u.SequenceOf(componentType=uni))):
        huge.append(('2048-octet INTEGER guided by ' + nm, sp, huge_int if sp is not None and isinstance(sp, _u.Integer) else _hdr(0x30, len(huge_int)) + huge_int))
    for what, sp, data in huge:
        for cdc in ('BER', 'DER', 'CER'):
            d = I.run_decode(cdc, data, **({'asn1Spec': sp} if sp is not None else {}))
            ctx.case(('huge-number', what, cdc), True)
            ctx.stats['huge-number:' + ('accepted' if d[0] == 'ok' else 'library error' if I.is_library(d[1]) else 'crash')] += 1
            if d[0] != 'ok' and not I.is_library(d[1]):
                ctx.prop_fail('%s decoder let a non-library exception escape: %s (%s)' % (cdc, d[1], what),
                              {'decoder': cdc, 'what': what, 'bytes': data.hex(), 'outcome': d[1:]},
                              finding=classify(('crash', d[1], d[2] if len(d) > 2 else ''), data, cdc))
    for name, so, tg in cspecs:
        for n in (1, 2, 8, 100, 1000, 1800, 2048, 5000):
            for fill in (0x11, 0x61, 0x7f, 0xff):
                ct = (b'\x00' if tg == 3 else b'') + bytes([0x7f if tg in (2, 10) else fill]) + bytes([fill]) * (n - 1)
                one = _hdr(tg, len(ct)) + ct
                variants = [(name, so, one)]
                for wrap, wname in ((_u.SequenceOf(componentType=so.clone() if False else so), 'SEQUENCE OF ' + name),
                                    (_u.SequenceOf(componentType=_u.Integer() if tg in (2, 10) else so.__class__()).subtype(subtypeSpec=_c.ValueSizeConstraint(2, 3)), 'SEQUENCE (SIZE(2..3)) OF unconstrained twin of ' + name)):
                    variants.append((wname, wrap, _hdr(0x30, len(one)) + one))
                for vname, vspec, data in variants:
                    for cdc in ('BER', 'DER'):
                        d = I.run_decode(cdc, data, asn1Spec=vspec)
                        ctx.case(('constrained', vname, cdc, n, fill), True)
                        ctx.stats['constrained:' + ('accepted' if d[0] == 'ok' else 'library error' if I.is_library(d[1]) else 'crash')] += 1
                        if d[0] != 'ok' and not I.is_library(d[1]):
                            ctx.prop_fail('%s decoder let a non-library exception escape on a value violating the constraints of its guiding type: %s' % (cdc, d[1]),
                                          {'decoder': cdc, 'spec': vname, 'bytes': data.hex(), 'contents_octets': n, 'fill': fill, 'outcome': d[1:]},
                                          finding=classify(('crash', d[1], d[2] if len(d) > 2 else ''), data, cdc))
    if meta: ctx.sample(meta[0]); ctx.sample(meta[-1])
    if not search_only:
        codes = core.coq_codes('c08', 'Model.Dec Model.Obs', exprs)
        for i, cd in codes.items():
            if cd == 2: ctx.stats['model_declines'] += 1
            else: ctx.corr_fail('model and implementation disagree on a malformed input', meta[i])


def replay(data):
    m = data.get('case', data)
    print(m)
    sd = m['spec']
    so = U.build_type(sd) if sd is not None else None
    for cdc in ('BER', 'CER', 'DER'):
        print(cdc, outcome(cdc, bytes.fromhex(m['bytes']), sd, so))
    if sd is not None:
        print('model:', core.coq_show('Model.Dec', 'decode %s (Some %s) %s' % (m['decoder'], U.coq_ty(sd), cbytes(bytes.fromhex(m['bytes'])))))
    return 0

"""C10 - whatever a decoder accepts is a well-formed, re-encodable value of the type."""
from harness import core, codec, universe as U, implrun as I, gen, tlvtree
from harness.coqio import cbytes
from harness.gen import base_desc
from harness.props.c08 import mutants
from pyasn1.type import univ, constraint, namedtype, base
from pyasn1 import error


def neighbours(ctx, c):
    """encodings of values of neighbouring types: one member dropped / duplicated / retagged"""
    out = []
    T, v = c.T, c.v
    b = base_desc(T)
    if b[0] in ('seq', 'set') and T[0] == b[0] and b[1]:
        i = ctx.rng.randrange(len(b[1]))
        T2 = (b[0], b[1][:i] + b[1][i + 1:]); v2 = ('rec', v[1][:i] + v[1][i + 1:])
        out.append((T2, v2))
        if v[1][i] is not None:
            p, ft = b[1][i]
            T3 = (b[0], b[1][:i] + [(p, ('exp', (128, 0, 29), ft))] + b[1][i + 1:])
            out.append((T3, v))
    if b[0] in ('seqof', 'setof') and T[0] == b[0] and v[1]:
        out.append((T, ('list', v[1] + [v[1][0]])))
    res = []
    for T2, v2 in out:
        try:
            c2 = codec.Case(T2, v2)
            e = I.run_encode('BER', c2.obj)
            if e[0] == 'ok': res.append(e[1])
        except Exception:
            pass
    return res


def well_formed(obj, T):
    """independent evaluator: every mandatory component present, every component of its declared type"""
    a = U.absval_top(obj, T)
    return a[0] != 'bad', a


import itertools
CONSTRAINED = None


def constrained_specs():
    """types with value, size and component-presence constraints: (spec object, checker of a decoded object, name)"""
    out = []
    out.append((univ.Integer().subtype(subtypeSpec=constraint.ValueRangeConstraint(0, 10)), lambda o: 0 <= int(o) <= 10, 'INTEGER (0..10)', 'F13x'))
    out.append((univ.OctetString().subtype(subtypeSpec=constraint.ValueSizeConstraint(1, 3)), lambda o: 1 <= len(o) <= 3, 'OCTET STRING (SIZE(1..3))', None))
    so = univ.SequenceOf(componentType=univ.Integer()).subtype(subtypeSpec=constraint.ValueSizeConstraint(1, 2))
    out.append((so, lambda o: 1 <= len(o) <= 2, 'SEQUENCE (SIZE(1..2)) OF INTEGER', 'F13'))
    st = univ.SetOf(componentType=univ.OctetString()).subtype(subtypeSpec=constraint.ValueSizeConstraint(0, 1))
    out.append((st, lambda o: len(o) <= 1, 'SET (SIZE(0..1)) OF OCTET STRING', 'F13'))
    return out


def run(ctx):
    ctx.rule = ('inputs = valid BER/CER/DER encodings of T (random types; every presence pattern of three-member SEQUENCE/SET types, also with an untagged CHOICE member), encodings of neighbouring types (member dropped, retagged, element duplicated), and '
                'mutants of both and single structural edits (member added/removed/repeated/swapped, node emptied, length form switched); only accepted inputs count (acceptance rate in the distribution); checked on acceptance: independent '
                "well-formedness, the library's encoder accepts the value, decode(encode(value)) is abstractly equal; plus constrained types "
                '(value range, size of OCTET STRING, size of SEQUENCE OF/SET OF); time types with 13 damaged or non-canonical texts under each codec; REAL with 200..255-octet exponents')
    search_only = getattr(ctx, 'search_only', False)
    cases = codec.gen_cases(ctx, ctx.n(100, 2000), depth=3)
    cases += codec.presence_grid_cases(ctx, every=3 if ctx.tier == 'quick' else 1)     # every OPTIONAL/DEFAULT pattern, also around an untagged CHOICE
    cases += codec.default_constructed_cases(ctx) + codec.mixed_form_sibling_cases(ctx)[::3] + codec.tagged_choice_in_choice_cases(ctx)   # round 7
    exprs, meta = [], []
    for c in cases:
        cdc = ctx.rng.choice(['BER', 'BER', 'CER', 'DER'])
        e = I.run_encode(cdc, c.obj) if cdc != 'BER' else I.run_encode('BER', c.obj, defMode=ctx.rng.random() < .6, maxChunkSize=ctx.rng.choice([0, 0, 3]))
        inputs = []
        if e[0] == 'ok':
            inputs.append(e[1])
            inputs += mutants(ctx.rng, e[1], 4)
            if len(e[1]) <= 300:
                # single structural edits: a member added, removed, repeated, swapped; a node emptied; a length form switched
                try:
                    eds = tlvtree.structural_edits(tlvtree.parse(e[1]))
                except ValueError:
                    eds = []
                for _, b in ctx.rng.sample(eds, min(len(eds), 10)):
                    inputs.append(b); ctx.stats['structural edits'] += 1
        inputs += neighbours(ctx, c)
        for data in inputs:
            d = I.run_decode(cdc, data, asn1Spec=c.spec)
            ctx.stats['accepted' if d[0] == 'ok' else 'rejected'] += 1
            if d[0] != 'ok':
                continue
            ctx.case((cdc, data, c.cty), e[0] != 'ok' or data != e[1])
            m = {'decoder': cdc, 'T': c.T, 'bytes': data.hex()}
            ok, a = well_formed(d[1], c.T)
            if not ok:
                ctx.prop_fail('accepted value is not a complete value of the type: %s' % (a[1],), m)
                continue
            r = I.run_encode(cdc, d[1])
            if r[0] != 'ok':
                # F56: the strict codecs' time encoder refuses text their decoders let through
                fid = 'F56' if cdc in ('CER', 'DER') and _has_time(c.T) and r[1] == 'EMalformed' else None
                ctx.prop_fail("the library's encoder refuses a value the decoder returned: %s" % r[1], m, finding=fid)
                continue
            d2 = I.run_decode(cdc, r[1], asn1Spec=c.spec)
            if d2[0] != 'ok' or d2[2] or not U.aval_eq(U.absval_top(d2[1], c.T), a):
                # which known finding explains a failing re-encode round trip, if any
                fid = None
                try:
                    # reconstruct a value descriptor is not needed: classify on the type/codec by re-running the encoder-side predicates
                    fid = 'F01' if (cdc == 'CER' and _has_f01_shape(c.T)) else ('F24' if cdc in ('CER', 'DER') and _has_f24_shape(c.T) else None)
                    if fid is None and cdc == 'CER' and _junk_in_tagged_any(c.T, a):
                        fid = 'F61'
                    if fid is None and cdc == 'BER' and b'\x80' in r[1] and _has_f01_shape(c.T): fid = 'F01'
                    if fid is None and cdc == 'CER' and _obj_has_f01_shape(d[1]): fid = 'F01'
                except Exception:
                    pass
                ctx.prop_fail('decode(encode(decoded value)) differs from the decoded value', dict(m, reencoded=r[1].hex()), finding=fid)
            if not search_only:
                d_lit, _ = codec.dec_lit(c.T, d)
                exprs.append(codec.dec_expr(cdc, c, data, d_lit)); meta.append(m)
    # constrained types
    for spec, chk, name, fid in constrained_specs():
        for n in range(0, 5):
            for cdc in ('BER', 'DER'):
                vals = []
                if isinstance(spec, univ.Integer): data = I.run_encode('BER', univ.Integer(n * 4 - 2))[1]
                elif isinstance(spec, univ.OctetString): data = I.run_encode('BER', univ.OctetString(b'x' * n))[1]
                elif isinstance(spec, univ.SequenceOf):
                    o = univ.SequenceOf(componentType=univ.Integer()); o.clear(); o.extend(range(n)); data = I.run_encode('BER', o)[1]
                else:
                    o = univ.SetOf(componentType=univ.OctetString()); o.clear(); o.extend([b'a'] * n); data = I.run_encode('BER', o)[1]
                d = I.run_decode(cdc, data, asn1Spec=spec)
                ctx.case(('constrained', name, n, cdc), True)
                if d[0] == 'ok':
                    try: good = chk(d[1])
                    except Exception: good = False
                    if not good:
                        ctx.prop_fail('decoder returned a value violating the subtype constraint of %s' % name,
                                      {'decoder': cdc, 'type': name, 'bytes': data.hex()}, finding=fid if fid == 'F13' else None)
    # component-presence constraints (WITH COMPONENTS): SEQUENCE and SET of three OPTIONAL members of distinct tags under
    # every combination of PRESENT / ABSENT / unconstrained per member; every subset of the members on the wire (SET: also
    # in reverse order), definite and indefinite: whatever a decoder returns satisfies the constraint, which is evaluated
    # here from the wire subset alone, and the same codec's encoder accepts it (finding F67: constraints of records were
    # never evaluated)
    pm = [('a', univ.Integer(), univ.Integer(7)), ('b', univ.OctetString(), univ.OctetString(b'pq')), ('c', univ.Boolean(), univ.Boolean(True))]
    pencs = [I.run_encode('DER', v)[1] for _, _, v in pm]      # DER forms (TRUE = FF): valid for all three decoders
    for container, tagoct in ((univ.Sequence, 0x30), (univ.Set, 0x31)):
        for pattern in itertools.product('PA-', repeat=3):
            if pattern == ('-', '-', '-'): continue
            consts = [(nm, constraint.ComponentPresentConstraint() if w == 'P' else constraint.ComponentAbsentConstraint())
                      for (nm, _, _), w in zip(pm, pattern) if w != '-']
            spec = container(componentType=namedtype.NamedTypes(*[namedtype.OptionalNamedType(nm, t) for nm, t, _ in pm])).subtype(
                subtypeSpec=constraint.WithComponentsConstraint(*consts))
            for r in range(0, 4):
                for subset in itertools.combinations(range(3), r):
                    holds = all((w != 'P' or i in subset) and (w != 'A' or i not in subset) for i, w in enumerate(pattern))
                    orders = [subset, tuple(reversed(subset))] if container is univ.Set and r > 1 else [subset]
                    for order in orders:
                        body = b''.join(pencs[i] for i in order)
                        for data, cdcs in ((bytes([tagoct, len(body)]) + body, ('BER', 'DER')), (bytes([tagoct, 0x80]) + body + b'\x00\x00', ('BER', 'CER'))):
                            for cdc in cdcs:
                                d = I.run_decode(cdc, data, asn1Spec=spec)
                                ctx.case(('presence-constraint', container.__name__, pattern, order, data[1] == 0x80, cdc), True)
                                m = {'decoder': cdc, 'type': '%s {a INTEGER OPTIONAL, b OCTET STRING OPTIONAL, c BOOLEAN OPTIONAL} (WITH COMPONENTS %s)' % (
                                    container.__name__, ''.join(pattern)), 'bytes': data.hex()}
                                if d[0] == 'ok' and not holds:
                                    ctx.prop_fail('decoder returned a value violating the component-presence constraint of its type', m)
                                elif d[0] == 'ok':
                                    r2 = I.run_encode(cdc, d[1])
                                    if r2[0] != 'ok':
                                        ctx.prop_fail('the %s encoder refuses a value its decoder accepted' % cdc, m)
                                elif d[0] == 'err' and holds and not (cdc == 'DER' and False):
                                    ctx.prop_fail('decoder refuses a valid encoding whose value satisfies the component-presence constraint', m)
    # mandatory members, systematically: SET and SEQUENCE types with 2-4 mandatory members of distinct tags; every
    # proper subset of the members, for SET in every arrival order, definite and indefinite: whatever the decoder
    # returns must hold every mandatory member (it should refuse)
    leaf = [(univ.Integer(), univ.Integer(5)), (univ.Boolean(), univ.Boolean(True)), (univ.OctetString(), univ.OctetString(b'abc')),
            (univ.Null(), univ.Null('')), (univ.ObjectIdentifier(), univ.ObjectIdentifier((1, 2, 3)))]
    for k in (2, 3, 4):
        for container, tagoct in ((univ.Set, 0x31), (univ.Sequence, 0x30)):
            members = leaf[:k] if container is univ.Set else leaf[1:k + 1]
            spec = container(componentType=namedtype.NamedTypes(*[namedtype.NamedType('m%d' % i, t) for i, (t, _) in enumerate(members)]))
            encs = [I.run_encode('BER', v)[1] for _, v in members]
            for r in range(0, k):
                for subset in itertools.combinations(range(k), r):
                    orders = itertools.permutations(subset) if container is univ.Set else [subset]
                    for order in orders:
                        body = b''.join(encs[i] for i in order)
                        for data, cdcs in ((bytes([tagoct, len(body)]) + body, ('BER', 'DER')), (bytes([tagoct, 0x80]) + body + b'\x00\x00', ('BER', 'CER'))):
                            for cdc in cdcs:
                                d = I.run_decode(cdc, data, asn1Spec=spec)
                                ctx.case(('mandatory', container.__name__, k, order, data[1] == 0x80, cdc), True)
                                if d[0] == 'ok':
                                    ctx.prop_fail('decoder returned a %s lacking mandatory members %s (arrived: %s)' % (
                                        container.__name__, sorted(set(range(k)) - set(subset)), list(order)),
                                        {'decoder': cdc, 'type': '%s of %d mandatory members' % (container.__name__, k), 'bytes': data.hex()})
    # constrained strings in every BER form (primitive, one or more segments, indefinite), untagged and under an
    # EXPLICIT tag: the decoder assembles segments into a fresh value object before the type sees them
    from pyasn1.type import tag as _tag, char as _char
    def _seg(tagoct, parts, indef):
        inner = b''.join(bytes([tagoct, len(p)]) + p for p in parts)
        return bytes([tagoct | 0x20, 0x80]) + inner + b'\x00\x00' if indef else bytes([tagoct | 0x20, len(inner)]) + inner
    for base, tagoct, mk in ((univ.OctetString(), 4, lambda n: b'x' * n), (_char.IA5String(), 22, lambda n: b'y' * n)):
        for lo, hi in ((1, 3), (0, 0), (2, 2)):
            spec0 = base.subtype(subtypeSpec=constraint.ValueSizeConstraint(lo, hi))
            spec1 = base.subtype(subtypeSpec=constraint.ValueSizeConstraint(lo, hi), explicitTag=_tag.Tag(_tag.tagClassContext, _tag.tagFormatConstructed, 2))
            for n in range(0, 7):
                body = mk(n)
                forms = [bytes([tagoct, n]) + body, _seg(4, [body], False), _seg(4, [body], True)]
                if n >= 2:
                    forms += [_seg(4, [body[:1], body[1:]], False), _seg(4, [body[:n // 2], b'', body[n // 2:]], True)]
                for fi, f0 in enumerate(forms):
                    # the outer identifier is the string's own tag (constructed bit as in the form), segments are OCTET STRINGs
                    f = bytes([(f0[0] & 0x20) | tagoct]) + f0[1:]
                    for spec, data in ((spec0, f), (spec1, bytes([0xa2, len(f)]) + f)):
                        for cdc in ('BER', 'CER'):
                            d = I.run_decode(cdc, data, asn1Spec=spec)
                            ctx.case(('constrained-string', tagoct, lo, hi, n, fi, spec is spec1, cdc), True)
                            if d[0] == 'ok' and not (lo <= len(d[1]) <= hi):
                                ctx.prop_fail('decoder returned a string of %d octets under SIZE(%d..%d)' % (len(d[1]), lo, hi),
                                              {'decoder': cdc, 'type': '%s SIZE(%d..%d)%s' % (type(base).__name__, lo, hi, ' [2] EXPLICIT' if spec is spec1 else ''), 'bytes': data.hex()})
    # time types with damaged / non-canonical text under each codec (finding F56 is the CER/DER half), and a
    # REAL whose exponent the encoder cannot write (F58); both were found by the proof of C10
    from pyasn1.type import useful
    TIMES = [b'abc', b'Z', b'', b'20170801120112Z', b'201708011201Z', b'20170801120112.5Z', b'20170801120112.50Z',
             b'20170801120112+0100', b'2017080112Z', b'170801120112Z', b'1708011201Z', b'170801120112+0000', b'17080112011']
    for tname, spec, tagno in (('GeneralizedTime', useful.GeneralizedTime(), 24), ('UTCTime', useful.UTCTime(), 23)):
        for text in TIMES:
            data = bytes([tagno, len(text)]) + text
            for cdc in ('BER', 'CER', 'DER'):
                d = I.run_decode(cdc, data, asn1Spec=spec)
                ctx.case(('time', tname, text, cdc), True)
                if d[0] != 'ok': continue
                r = I.run_encode(cdc, d[1])
                if r[0] != 'ok':
                    ctx.prop_fail("the library's %s encoder refuses a %s the %s decoder returned (%r): %s" % (cdc, tname, cdc, text, r[1]),
                                  {'decoder': cdc, 'type': tname, 'bytes': data.hex()}, finding='F56' if cdc in ('CER', 'DER') else None)
                elif I.run_decode(cdc, r[1], asn1Spec=spec)[0] != 'ok':
                    ctx.prop_fail('re-encoded %s does not decode' % tname, {'decoder': cdc, 'type': tname, 'bytes': data.hex()})
    for first, nexp in ((0xa3, 255), (0xa3, 254), (0x93, 255), (0x83, 255), (0x83, 200)):
        ct = bytes([first, nexp, 0x7f]) + b'\xff' * (nexp - 1) + b'\x01'
        data = bytes([9, 0x82, len(ct) >> 8, len(ct) & 255]) + ct
        for cdc in ('BER', 'DER'):
            d = I.run_decode(cdc, data, asn1Spec=univ.Real())
            ctx.case(('real-exponent', first, nexp, cdc), True)
            if d[0] != 'ok': continue
            r = I.run_encode(cdc, d[1])
            if r[0] != 'ok':
                ctx.prop_fail("the library's encoder refuses a REAL the decoder returned: %s" % r[1],
                              {'decoder': cdc, 'type': 'REAL', 'bytes': data.hex()},
                              finding='F58' if (first & 0x30) in (0x10, 0x20) and nexp >= 254 else None)
    if meta: ctx.sample(meta[0]); ctx.sample(meta[-1])
    if not search_only:
        codes = core.coq_codes('c10', 'Model.Dec Model.Obs', exprs)
        for i, cd in codes.items():
            if cd == 2: ctx.stats['model_declines'] += 1
            else: ctx.corr_fail('model and implementation disagree on an accepted input', meta[i])


def _tlv_run(b):
    """b is a sequence of complete definite-length TLVs, none of them the end-of-octets marker"""
    i, n = 0, len(b)
    while i < n:
        first = b[i]; i += 1
        if first & 0x1f == 0x1f:
            while i < n and b[i] & 0x80: i += 1
            i += 1
        if i >= n: return False
        l = b[i]; i += 1
        if first == 0 and l == 0: return False
        if l == 0x80: return False
        if l & 0x80:
            k = l & 0x7f
            if i + k > n: return False
            l = int.from_bytes(b[i:i + k], 'big'); i += k
        i += l
        if i > n: return False
    return True


def _junk_in_tagged_any(T, a):
    """class predicate of finding F61: the decoded value holds, in a TAGGED ANY, octets that are not a run of complete
    definite-length TLVs (the decoders take the contents of a definite-length tagged ANY unseen)"""
    k = T[0]
    if a is None or not isinstance(a, tuple): return False
    if k in ('imp', 'exp'):
        if gen.base_desc(T)[0] == 'any':
            return a[0] == 'any' and not _tlv_run(bytes(a[1]))
        return _junk_in_tagged_any(T[2], a)
    if k in ('seq', 'set') and a[0] == 'rec':
        return any(_junk_in_tagged_any(ft, x) for (_, ft), x in zip(T[1], a[1]) if x is not None)
    if k in ('seqof', 'setof') and a[0] in ('list', 'bag'):
        return any(_junk_in_tagged_any(T[1], x) for x in a[1])
    if k == 'choice' and a[0] == 'ch':
        return _junk_in_tagged_any(T[1][a[1]], a[2])
    return False


def _has_time(T):
    k = T[0]
    if k == 'str': return T[1] in ('GeneralizedTime', 'UTCTime')
    if k in ('imp', 'exp'): return _has_time(T[2])
    if k in ('seq', 'set'): return any(_has_time(ft) for _, ft in T[1])
    if k in ('seqof', 'setof'): return _has_time(T[1])
    if k == 'choice': return any(_has_time(a) for a in T[1])
    return False


def _has_f01_shape(T):
    k = T[0]
    if k in ('imp', 'exp'):
        if base_desc(T)[0] in codec.NOINDEF and codec.tag_count(T) >= 2: return True
        return _has_f01_shape(T[2])
    if k in ('seq', 'set'): return any(_has_f01_shape(ft) for _, ft in T[1])
    if k in ('seqof', 'setof'): return _has_f01_shape(T[1])
    if k == 'choice': return any(_has_f01_shape(a) for a in T[1])
    return False


def _obj_has_f01_shape(obj, depth=0):
    """the decoded OBJECT holds an EXPLICIT tag directly over BOOLEAN/INTEGER/ENUMERATED/NULL/OID/REAL somewhere - members a
    member-less SEQUENCE/SET type took in without a schema carry their own tags, the type descriptor does not show them"""
    if obj is None or obj is base.noValue or depth > 8:
        return False
    if isinstance(obj, (univ.SequenceOfAndSetOfBase, univ.SequenceAndSetBase, univ.Choice)):
        cv = obj._componentValues
        if cv is base.noValue:
            return False
        items = cv.values() if isinstance(cv, dict) else cv
        return any(_obj_has_f01_shape(c, depth + 1) for c in items)
    return isinstance(obj, (univ.Integer, univ.Null, univ.ObjectIdentifier, univ.Real)) and len(obj.tagSet) >= 2


def _has_f24_shape(T):
    k = T[0]
    if k in ('imp', 'exp'): return _has_f24_shape(T[2])
    if k in ('seq', 'set'):
        for p, ft in T[1]:
            if p == 'opt' and base_desc(ft)[0] in codec.CONSTRUCTED + ('any',) and codec.tag_count(ft) > 0: return True
            if _has_f24_shape(ft): return True
        return False
    if k in ('seqof', 'setof'): return _has_f24_shape(T[1])
    if k == 'choice': return any(_has_f24_shape(a) for a in T[1])
    return False


def replay(data):
    print(data.get('case', data))
    return 0

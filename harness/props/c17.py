"""C17 - native-Python codec round trip and Python-value encoding equivalence.

(a) value object -> pyasn1.codec.native.encoder.encode -> tree of built-ins ->
    pyasn1.codec.native.decoder.decode(asn1Spec=T) -> a value with the same abstract content
    (REAL compared as Python floats);
(b) {ber,cer,der}.encoder.encode(tree, asn1Spec=T) == encode(value object), BER definite,
    indefinite and chunked, CER, DER, over every subset of OPTIONAL members and every CHOICE
    alternative.
Both steps of (a) and the bare-value encoders of (b) are compared with Model/Native.v."""
import math
from fractions import Fraction
from harness import core, codec, gen, universe as U, implrun as I
from harness.coqio import cbool, cbytes, clist, cZ, cnat
from harness.gen import base_desc
core.use_repo()
from pyasn1.codec.native import encoder as nat_enc, decoder as nat_dec

IMPORTS = 'Model.Native'
CHUNKS = [1, 2, 3, 7]
FIX_IDS = ('F15', 'F16', 'F28n', 'F41', 'F42', 'F43')


# ---------------------------------------------------------------------------------------------
# trees of built-ins

def canon(x):
    """tree of Python built-ins -> descriptor (twin of Coq `pyval`)"""
    if isinstance(x, bool): return ('pbool', x)
    if isinstance(x, int): return ('pint', x)
    if isinstance(x, str): return ('pstr', x)
    if isinstance(x, (bytes, bytearray)): return ('pbytes', bytes(x))
    if isinstance(x, float): return ('pfloat', x)
    if x is None: return ('pnone',)
    if isinstance(x, (list, tuple)): return ('plist', [canon(y) for y in x])
    if isinstance(x, dict): return ('pdict', [(k, canon(y)) for k, y in x.items()])
    raise core.HarnessError('native encoder produced a %s' % type(x).__name__)


def key_index(k):
    if isinstance(k, str) and k[:1] == 'f' and k[1:].isdigit():
        return int(k[1:])
    raise core.HarnessError('unexpected mapping key %r' % (k,))


def coq_py(p):
    k = p[0]
    if k == 'pbool': return '(PBool %s)' % cbool(p[1])
    if k == 'pint': return '(PInt %s)' % cZ(p[1])
    if k == 'pstr': return '(PStr %s)' % clist(['%d' % ord(ch) for ch in p[1]])
    if k == 'pbytes': return '(PBytes %s)' % cbytes(p[1])
    if k == 'pnone': return 'PNone'
    if k == 'pfloat':
        f = p[1]
        if f == float('inf'): return '(PFloat FPInf)'
        if f == float('-inf'): return '(PFloat FNInf)'
        if f == 0.0: return '(PFloat FZero)'
        return '(PFloat FOpaque)'
    if k == 'plist': return '(PList %s)' % clist([coq_py(x) for x in p[1]])
    if k == 'pdict': return '(PDict %s)' % clist(['(%s, %s)' % (cnat(key_index(n)), coq_py(x)) for n, x in p[1]])
    raise ValueError(p)


def coq_res(r, f):
    return '(Ok %s)' % f(r[1]) if r[0] == 'ok' else '(Err %s)' % r[1]


def guarded(fn):
    try:
        return ('ok', fn())
    except RecursionError:
        return ('err', '(ECrash RecursionError)', 'RecursionError')
    except Exception as e:
        return ('err', I.err_class(e), '%s: %s' % (type(e).__name__, str(e)[:200]))


# ---------------------------------------------------------------------------------------------
# walking a (type, value) pair the way the native encoder does

def emitted(T, v):
    """(type, value, presence-of-the-slot) of every value node the native encoder turns into a
    built-in: the value, its assigned components, the defaults of unassigned DEFAULT components"""
    yield T, v, None
    yield from _emitted_inner(T, v)


def _emitted_inner(T, v):
    b = base_desc(T)
    k = b[0]
    if k in ('seq', 'set'):
        for (p, ft), fv in zip(b[1], v[1]):
            if fv is None:
                if isinstance(p, tuple):
                    yield ft, p[1], p
                    yield from _emitted_inner(ft, p[1])
                continue
            yield ft, fv, p
            yield from _emitted_inner(ft, fv)
    elif k in ('seqof', 'setof'):
        for x in v[1]:
            yield b[1], x, None
            yield from _emitted_inner(b[1], x)
    elif k == 'choice':
        yield b[1][v[1]], v[2], None
        yield from _emitted_inner(b[1][v[1]], v[2])


def records(T, v):
    """(field list, slot values) of every SEQUENCE/SET value node the encoders visit"""
    for ct, cv, _ in emitted(T, v):
        b = base_desc(ct)
        if b[0] in ('seq', 'set'):
            yield b[1], cv[1]


def all_optional_container(T):
    b = base_desc(T)
    return b[0] in ('seq', 'set') and len(b[1]) > 0 and all(p != 'req' for p, _ in b[1])


def real_float(r):
    """Python float of a REAL descriptor, None when it is out of the float range"""
    if r == 'inf': return float('inf')
    if r == '-inf': return float('-inf')
    m, bs, e = r
    try:
        return float(Fraction(m) * Fraction(bs) ** e)
    except OverflowError:
        return None


def real_out_of_range(T, v):
    """some REAL that Real.__float__ cannot convert: int(m * b**e) too large for a float.
    (m * pow(b, e) with e < 0 is float arithmetic and underflows quietly.)"""
    for ct, cv, _ in emitted(T, v):
        if base_desc(ct)[0] == 'real' and not isinstance(cv[1], str):
            m, bs, e = cv[1]
            if e >= 0:
                try:
                    float(m * bs ** e)
                except OverflowError:
                    return True
            elif m:
                try:
                    float(m)
                except OverflowError:
                    return True
    return False


# ---- class predicates of the defects this property met (all repaired by fixes/F*.diff) ----------

def f15_applies(T, v):
    """F15: a BIT STRING with no bits reaches the native encoder"""
    return any(base_desc(ct)[0] == 'bits' and len(cv[1]) == 0 for ct, cv, _ in emitted(T, v))


def f16_applies(T, v):
    """F16: an OPTIONAL member of a visited SEQUENCE/SET is absent (no key in the mapping)"""
    return any(p == 'opt' and fv is None for fs, vs in records(T, v) for (p, _), fv in zip(fs, vs))


def f28n_applies(T, v):
    """F28n: an absent OPTIONAL member whose own type is a SEQUENCE/SET with members, none mandatory"""
    return any(p == 'opt' and fv is None and all_optional_container(ft)
               for fs, vs in records(T, v) for (p, ft), fv in zip(fs, vs))


def f41_applies(T, v):
    """F41: an empty SEQUENCE OF/SET OF, or a SEQUENCE/SET without declared members, reaches the native decoder"""
    for ct, cv, _ in emitted(T, v):
        b = base_desc(ct)
        if b[0] in ('seqof', 'setof') and len(cv[1]) == 0: return True
        if b[0] in ('seq', 'set') and len(b[1]) == 0: return True
    return False


def f42_applies(T, v):
    """F42: a DEFAULT member of type NULL, OBJECT IDENTIFIER or a character/useful string type holds its default"""
    for fs, vs in records(T, v):
        for (p, ft), fv in zip(fs, vs):
            if isinstance(p, tuple) and base_desc(ft)[0] in ('null', 'oid', 'str'):
                if fv is None or codec.default_equal(ft, fv, p[1]):
                    return True
    return False


def octet_len(ct, cv):
    k = base_desc(ct)[0]
    if k == 'str' and cv[0] == 'chars':
        return len(cv[1].encode(U.str_encoding(ct)))
    return len(cv[1])


def f43_applies(T, v, chunk):
    """F43: a string longer than the chunk size under a schema whose tag set is not the bare
    universal OCTET STRING / BIT STRING tag (any tagged or character/useful string type)"""
    if not chunk:
        return False
    for ct, cv, _ in emitted(T, v):
        k = base_desc(ct)[0]
        tagged = ct[0] in ('imp', 'exp') or k == 'str'
        if not tagged:
            continue
        if k in ('octs', 'str') and octet_len(ct, cv) > chunk: return True
        if k == 'bits' and (len(cv[1]) + 7) // 8 * 8 > chunk * 8: return True
    return False


def classify_native(T, v):
    if f15_applies(T, v): return 'F15'
    if f28n_applies(T, v): return 'F28n'
    if f41_applies(T, v): return 'F41'
    return None


def classify_equiv(T, v, chunk):
    if f15_applies(T, v): return 'F15'
    if f28n_applies(T, v): return 'F28n'
    if f16_applies(T, v): return 'F16'
    if f42_applies(T, v): return 'F42'
    if f43_applies(T, v, chunk): return 'F43'
    # with a REAL in the type the value object compared against is the tree read back by the native decoder
    if 'real' in gen.features(T) and f41_applies(T, v): return 'F41'
    return None


# ---------------------------------------------------------------------------------------------
# abstract content with REAL as a float

def fabs(a):
    """absval tree with every REAL leaf replaced by its Python float"""
    if a is None: return None
    k = a[0]
    if k == 'real':
        r = a[1]
        if r == 'pinf': return ('realf', float('inf'))
        if r == 'ninf': return ('realf', float('-inf'))
        if r == 'zero': return ('realf', 0.0)
        if r == 'float': return ('realf', None)
        return ('realf', real_float((r[1], 2 if r[0] == 'bin' else 10, r[2])))
    if k in ('rec', 'list', 'bag'): return (k, tuple(fabs(x) for x in a[1]))
    if k == 'choice': return ('choice', a[1], fabs(a[2]))
    return a


def faval_eq(a, b):
    if a is None or b is None:
        return a is None and b is None
    if a[0] != b[0]: return False
    k = a[0]
    if k == 'bad': return False
    if k == 'realf':
        if a[1] is None or b[1] is None: return False
        return a[1] == b[1] or math.isclose(a[1], b[1], rel_tol=1e-9, abs_tol=0.0)
    if k in ('rec', 'list'):
        return len(a[1]) == len(b[1]) and all(faval_eq(x, y) for x, y in zip(a[1], b[1]))
    if k == 'bag':
        if len(a[1]) != len(b[1]): return False
        rest = list(b[1])
        for x in a[1]:
            for j, y in enumerate(rest):
                if faval_eq(x, y):
                    del rest[j]; break
            else:
                return False
        return True
    if k == 'choice':
        return a[1] == b[1] and faval_eq(a[2], b[2])
    return a == b


# ---------------------------------------------------------------------------------------------
# variants: every subset of OPTIONAL members, every CHOICE alternative

def opt_paths(T, path=()):
    """type paths of the OPTIONAL members and of the CHOICE nodes"""
    b = base_desc(T)
    k = b[0]
    opts, chs = [], []
    if k in ('seq', 'set'):
        for i, (p, ft) in enumerate(b[1]):
            if p == 'opt': opts.append(path + (i,))
            o, c = opt_paths(ft, path + (i,)); opts += o; chs += c
    elif k in ('seqof', 'setof'):
        o, c = opt_paths(b[1], path + ('e',)); opts += o; chs += c
    elif k == 'choice':
        chs.append((path, len(b[1])))
        for i, a in enumerate(b[1]):
            o, c = opt_paths(a, path + ('c', i)); opts += o; chs += c
    return opts, chs


def make_val(g, T, present, chsel, path=()):
    """a value of T with exactly the OPTIONAL members in `present` assigned and the CHOICE nodes
    in `chsel` set to the given alternative; everything else as gen.Gen.val draws it"""
    r = g.r
    b = base_desc(T)
    k = b[0]
    if k in ('seq', 'set'):
        out = []
        for i, (p, ft) in enumerate(b[1]):
            if p == 'opt':
                out.append(make_val(g, ft, present, chsel, path + (i,)) if path + (i,) in present else None)
            elif isinstance(p, tuple) and r.random() < .4: out.append(None)
            elif isinstance(p, tuple) and r.random() < .3: out.append(p[1])
            else: out.append(make_val(g, ft, present, chsel, path + (i,)))
        return ('rec', out)
    if k in ('seqof', 'setof'):
        return ('list', [make_val(g, b[1], present, chsel, path + ('e',)) for _ in range(r.choice([0, 1, 2, 3]))])
    if k == 'choice':
        i = chsel.get(path)
        if i is None: i = r.randrange(len(b[1]))
        return ('ch', i, make_val(g, b[1][i], present, chsel, path + ('c', i)))
    return g.val(T)


def variants(ctx, g, c, max_masks):
    """[(v, how)] for one generated case: the value itself, one value per subset of OPTIONAL
    members (all subsets for <= 6 of them), one per alternative of every CHOICE node"""
    out = [(c.v, 'generated')]
    opts, chs = opt_paths(c.T)
    if opts:
        n = len(opts)
        if n <= 6 and 2 ** n <= max_masks:
            masks = range(2 ** n)
            ctx.stats['optional_subsets:all'] += 1
        else:
            masks = sorted(set([0, 2 ** n - 1] + [ctx.rng.getrandbits(n) for _ in range(max_masks - 2)]))
            ctx.stats['optional_subsets:sampled'] += 1
        for m in masks:
            present = {p for j, p in enumerate(opts) if m >> j & 1}
            out.append((make_val(g, c.T, present, {}), 'optional subset %s of %d' % (bin(m)[2:].zfill(n), n)))
    for path, nalt in chs:
        for i in range(nalt):
            present = {p for p in opts if ctx.rng.random() < .5}
            out.append((make_val(g, c.T, present, {path: i}), 'choice alternative %d at %r' % (i, path)))
    return out


def mutated_tree(rng, g, T, v):
    """a tree the native encoder would not produce (model tie only, the property says nothing about it):
    a key removed from the mapping of a SEQUENCE/SET, or a second alternative added to that of a CHOICE"""
    b = base_desc(T)
    try:
        raw = nat_enc.encode(U.build_value(T, v))
        if b[0] in ('seq', 'set') and raw:
            k = rng.choice(sorted(raw))
            del raw[k]
            return raw, 'key %s removed' % k
        if b[0] == 'choice' and len(b[1]) > 1:
            j = rng.choice([i for i in range(len(b[1])) if i != v[1]])
            raw['f%d' % j] = nat_enc.encode(U.build_value(b[1][j], g.val(b[1][j])))
            return raw, 'alternative f%d added' % j
    except Exception:
        pass
    return None


def _leaf_pool():
    """leaf types with pairwise different outermost tags, spread over the universal, application,
    context and private classes so that any split of them interleaves in the DER/CER SET order"""
    pool = [('bool',), ('int',), ('bits',), ('octs',), ('null',), ('oid',), ('enum',),
            ('str', 'UTF8String'), ('str', 'IA5String'), ('str', 'PrintableString'), ('str', 'BMPString')]
    simple = [('bool',), ('int',), ('bits',), ('octs',), ('null',), ('oid',), ('str', 'UTF8String')]
    for cls in (64, 128, 192):
        for n in (0, 1, 2, 3, 30, 31):
            pool.append((cls, n, simple))
    return pool


def set_choice_type(rng):
    """SET { untagged CHOICE nested 2-3 levels deep, ..., siblings }: the alternatives of the CHOICE
    tree and the sibling members are drawn from one shuffled pool of distinctly tagged leaves, so
    sibling tags fall between the tags of the alternatives.  -> (type, [(member index, path), ...])"""
    pool = _leaf_pool()
    rng.shuffle(pool)

    def leaf():
        x = pool.pop()
        if len(x) == 3 and isinstance(x[0], int):
            cls, n, simple = x
            return (rng.choice(['imp', 'exp']), (cls, 0, n), rng.choice(simple))
        return x

    def tree(depth, force_nested):
        n = rng.randint(2, 3)
        nested_at = rng.randrange(n) if force_nested and depth > 1 else None
        alts = []
        for i in range(n):
            if depth > 1 and (i == nested_at or rng.random() < .25):
                sub = tree(depth - 1, depth - 1 > 1 and rng.random() < .5)
                if rng.random() < .35:
                    # the nested CHOICE under an EXPLICIT tag of its own: the member then starts with that tag,
                    # not with the tag of the value buried inside
                    tg = next((x for x in pool if len(x) == 3 and isinstance(x[0], int)), None)
                    if tg is not None:
                        pool.remove(tg)
                        sub = ('exp', (tg[0], 0, tg[1]), sub)
                alts.append(sub)
            else:
                alts.append(leaf())
        return ('choice', alts)

    members = [tree(rng.choice([2, 2, 3]), True)]
    if rng.random() < .3:
        members.append(tree(2, rng.random() < .5))
    for _ in range(rng.randint(1, 3)):
        members.append(leaf())
    rng.shuffle(members)
    fs = []
    for m in members:
        fs.append((rng.choice(['req', 'req', 'req', 'opt']) if m[0] != 'choice' else 'req', m))
    T = ('set', fs)

    def paths(t):
        if t[0] == 'exp' and t[2][0] == 'choice':
            t = t[2]
        if t[0] != 'choice':
            return [()]
        return [(i,) + r for i, a in enumerate(t[1]) for r in paths(a)]

    sel = [(k, pth) for k, (_, m) in enumerate(fs) if m[0] == 'choice' for pth in paths(m)]
    return T, sel


def set_choice_cases(ctx, g, n):
    """[(T, v, how)]: for n generated SET types, every leaf alternative of every CHOICE member chosen in turn"""
    out = []

    def val_at(t, pth):
        if t[0] == 'exp' and t[2][0] == 'choice':
            t = t[2]
        if t[0] != 'choice':
            return g.val(t)
        if pth:
            return ('ch', pth[0], val_at(t[1][pth[0]], pth[1:]))
        i = ctx.rng.randrange(len(t[1]))
        return ('ch', i, val_at(t[1][i], ()))

    for _ in range(n):
        T, sel = set_choice_type(ctx.rng)
        if not (gen.wf(T) and codec.any_positions_ok(T)):
            ctx.stats['set_choice:rejected'] += 1
            continue
        wrap = ctx.rng.random()
        for k, pth in sel:
            slots = []
            for j, (p, m) in enumerate(T[1]):
                if j == k: slots.append(val_at(m, pth))
                elif p == 'opt' and ctx.rng.random() < .3: slots.append(None)
                else: slots.append(val_at(m, ()))
            v = ('rec', slots)
            how = 'set-choice member %d alternative %s' % (k, '.'.join(map(str, pth)))
            if wrap < .2:
                out.append((('seq', [('req', T), ('opt', ('int',))]), ('rec', [v, None]), how))
            elif wrap < .35:
                out.append((('seqof', T), ('list', [v]), how))
            else:
                out.append((T, v, how))
        ctx.stats['set_choice:types'] += 1
        ctx.stats['set_choice:depth%d' % max(len(pth) for _, pth in sel)] += 1
    return out


# ---------------------------------------------------------------------------------------------
# one input through the implementation

def modes(rng):
    return [('BER', True, 0), ('BER', False, 0), ('BER', rng.random() < .5, rng.choice(CHUNKS)),
            ('CER', True, 0), ('DER', True, 0)]


def enc_kw(cd, defm, chunk):
    return {'defMode': defm, 'maxChunkSize': chunk} if cd == 'BER' else {}


def run_native(T, v):
    """native encode, then native decode: (py result, decode result or None, failure text or None)"""
    obj = U.build_value(T, v)
    want = U.absval_top(obj, T)
    e = guarded(lambda: canon(nat_enc.encode(obj)))
    if e[0] != 'ok':
        return e, None, 'native encoder raised %s' % e[1], want
    raw = nat_enc.encode(U.build_value(T, v))
    d = guarded(lambda: nat_dec.decode(raw, asn1Spec=U.build_type(T)))
    if d[0] != 'ok':
        return e, d, 'native decoder raised %s' % d[1], want
    got = U.absval_top(d[1], T)
    fail = None
    if not faval_eq(fabs(got), fabs(want)):
        fail = 'native round trip changed the abstract content'
    elif not getattr(d[1], 'isValue', False):
        fail = 'native decoder returned a schema object (isValue is False), not a value'
    return e, ('ok', got), fail, want


def run_equiv(T, v, cd, defm, chunk):
    """(bare-value result, value-object result, failure text or None)"""
    kw = enc_kw(cd, defm, chunk)
    try:
        raw = nat_enc.encode(U.build_value(T, v))
    except Exception as e:
        return None, None, None           # reported by the native part
    if 'real' in gen.features(T):
        # the value object equivalent to a float is Real(float): read the tree back
        try:
            obj = nat_dec.decode(raw, asn1Spec=U.build_type(T))
        except Exception:
            return None, None, None
    else:
        obj = U.build_value(T, v)
    a = I.run_encode(cd, obj, **kw)
    b = I.run_encode(cd, raw, asn1Spec=U.build_type(T), **kw)
    fail = None
    if a[:2] != b[:2]:
        if b[0] != 'ok': fail = 'encode(pyValue, asn1Spec) raised %s, encode(valueObject) did not' % b[1]
        elif a[0] != 'ok': fail = 'encode(valueObject) raised %s, encode(pyValue, asn1Spec) did not' % a[1]
        else: fail = 'encode(pyValue, asn1Spec) and encode(valueObject) give different octets'
    return b, a, fail


def run(ctx):
    ctx.rule = ('random (type, value) of the universe (depth<=3, tag stacks, boundary integers, bit strings of every length mod 8 '
                'incl. none, OIDs with multi-octet arcs, binary+decimal+infinite reals within float range, every string type); per '
                'case: the generated value, one value per subset of its OPTIONAL members (all subsets for <= 6, else sampled), one '
                'per alternative of every CHOICE node.  (a) native encode -> decode, abstract content compared (REAL as float, '
                'rel 1e-9), both steps against Model/Native.v; (b) types without ANY: encode(tree, asn1Spec) vs encode(value object) '
                'for BER definite / indefinite / chunk in {1,2,3,7}, CER, DER, bare-value encoder against encode_py; model tie only: '
                'the tree with one key removed (SEQUENCE/SET) or a second alternative added (CHOICE) through decoder and encoders.  '
                'Plus SET-ordering cases: SET (bare, in a SEQUENCE, in a SEQUENCE OF) whose members are untagged CHOICEs nested 2-3 '
                'levels and siblings, all leaves drawn from one shuffled pool of distinct tags over the four classes (so sibling '
                'tags interleave with those of the alternatives), every leaf alternative chosen in turn, same comparisons (DER dynamic and '
                'CER static order).  '
                'Plus the systematic grids: presence patterns of three-member records, empty / non-empty constructed members around OPTIONAL ones, every kind under every tagging shape.  '
                'non-trivial = constructed or tagged type; distinct by (type, value)')
    search_only = getattr(ctx, 'search_only', False)
    cases = codec.gen_cases(ctx, ctx.n(120, 2500), depth=3, reals='all')
    g = gen.Gen(ctx.rng, depth=3, reals='all')
    max_masks = 64
    exprs, meta = [], []
    work = []
    for c in cases:
        for v, how in variants(ctx, g, c, max_masks):
            work.append((c.T, c.cty, v, how))
    # SET ordering: untagged CHOICE members nested 2-3 levels, every alternative in turn, interleaving sibling tags
    for T, v, how in set_choice_cases(ctx, g, ctx.n(30, 500)):
        work.append((T, U.coq_ty(T), v, how))
    # systematic: presence patterns (also around an untagged CHOICE), empty / non-empty constructed members around
    # OPTIONAL ones, every kind under every tagging shape
    for c in (codec.presence_grid_cases(ctx, every=6 if ctx.tier == 'quick' else 1) + codec.empty_member_grid_cases(ctx, every=2 if ctx.tier == 'quick' else 1)
              + codec.tag_grid_cases(ctx, every=3 if ctx.tier == 'quick' else 1)):
        work.append((c.T, c.cty, c.v, 'grid'))
    # DEFAULT components whose default value has more than one representation: a REAL held in base 2 (or base 10)
    # against the equal Python float, equal and different values, SEQUENCE and SET, plain and tagged: the Python-value
    # branch must leave out exactly what the value-object branch leaves out (round 7: DEFAULT test by encoding)
    for kind in ('seq', 'set'):
        for dflt in ((1, 2, -1), (3, 2, -2), (5, 2, 3), (5, 10, -1), (25, 10, -2), (0, 10, 0)):
            for val in (dflt, (1, 2, -1), (75, 10, -2), (40, 2, 0)):
                for tg in (lambda t: t, lambda t: ('exp', (128, 0, 2), t)):
                    T = (kind, [(('def', ('real', dflt)), tg(('real',))), ('req', ('int',))])
                    for rv in (('real', val), None):
                        try:
                            work.append((T, U.coq_ty(T), ('rec', [rv, ('i', 4)]), 'real-default'))
                            ctx.stats['real-default cases'] += 1
                        except Exception:
                            ctx.stats['real-default-unbuildable'] += 1
    for T, cty, v, how in work:
        has_any = 'any' in gen.features(T)
        has_real = 'real' in gen.features(T)
        try:
            cval = U.coq_val(T, v)
            U.build_value(T, v)
        except Exception:
            ctx.stats['unbuildable'] += 1
            continue
        if has_real and real_out_of_range(T, v):
            ctx.stats['skipped:real_out_of_float_range'] += 1
            continue
        ctx.case((cty, cval), T[0] not in ('bool', 'int', 'null', 'octs'))
        ctx.stats['variant:' + how.split(' ')[0]] += 1
        m = {'T': T, 'v': v, 'how': how}
        # (a)
        e, d, fail, want = run_native(T, v)
        if fail:
            fid = classify_native(T, v)
            ctx.prop_fail('native round trip: ' + fail, dict(m, part='native'), finding=fid)
            ctx.stats['prop_fail:' + (fid or 'unexplained')] += 1
        subs = []
        if e[0] == 'ok':
            p_lit = coq_py(e[1])
            subs.append(('native encoder', 'py_code (to_native T v) (Ok p)'))
            if d is not None:
                subs.append(('native decoder', 'natdec_code T (of_native T p) %s' % coq_res(d, U.coq_aval)))
        else:
            p_lit = 'PNone'
            subs.append(('native encoder', 'py_code (to_native T v) (Err %s)' % e[1]))
        # (b)
        if not has_any and e[0] == 'ok':
            for cd, defm, chunk in modes(ctx.rng):
                b, a, fail = run_equiv(T, v, cd, defm, chunk)
                if b is None:
                    continue
                ctx.stats['mode:%s%s' % (cd, '' if cd != 'BER' else ('/def' if defm else '/indef') + ('/chunk' if chunk else ''))] += 1
                if fail:
                    fid = classify_equiv(T, v, chunk if cd == 'BER' else (1000 if cd == 'CER' else 0))
                    ctx.prop_fail('python-value encoding: ' + fail, dict(m, part='equiv', codec=cd, defMode=defm, maxChunkSize=chunk),
                                  finding=fid)
                    ctx.stats['prop_fail:' + (fid or 'unexplained')] += 1
                subs.append(('%s bare-value encoder defMode=%s maxChunkSize=%d' % (cd, defm, chunk),
                             'nbytes_code (encode_py %s %s %d T p) %s' % (cd, cbool(defm), chunk, I.coq_res_bytes(b))))
        elif has_any:
            ctx.stats['equiv_skipped:ANY'] += 1
        # a tree with a key missing / one alternative too many: decoder and encoders against the model
        pm_lit = 'PNone'
        mt = mutated_tree(ctx.rng, g, T, v) if e[0] == 'ok' and not search_only else None
        if mt is not None:
            raw_m, what_m = mt
            ctx.stats['mutated_tree:' + what_m.split(' ')[0]] += 1
            pm_lit = coq_py(canon(raw_m))
            dm = guarded(lambda: U.absval_top(nat_dec.decode(raw_m, asn1Spec=U.build_type(T)), T))
            subs.append(('native decoder, %s' % what_m, 'natdec_code T (of_native T pm) %s' % coq_res(dm, U.coq_aval)))
            if not has_any:
                for cd in ('BER', 'DER'):
                    bm = I.run_encode(cd, raw_m, asn1Spec=U.build_type(T))
                    subs.append(('%s bare-value encoder, %s' % (cd, what_m),
                                 'nbytes_code (encode_py %s true 0 T pm) %s' % (cd, I.coq_res_bytes(bm))))
        if not search_only:
            exprs.append('let T := %s in let v := %s in let p := %s in let pm := %s in codes_max [%s]'
                         % (cty, cval, p_lit, pm_lit, '; '.join(s for _, s in subs)))
            meta.append((m, cty, cval, p_lit, pm_lit, subs))
        if e[0] == 'ok' and len(ctx.samples) < 4 and T[0] in ('seq', 'set', 'choice', 'exp') and how != 'generated':
            ctx.sample({'type': T, 'value': v, 'native': repr(nat_enc.encode(U.build_value(T, v)))[:300]})
    if search_only or not exprs:
        return
    codes = core.coq_codes('c17', IMPORTS, exprs)
    bad = [i for i, cd in codes.items() if cd != 2]
    ctx.stats['model_declines'] += sum(1 for cd in codes.values() if cd == 2)
    # say which comparison of a disagreeing input it was
    detail, owner = [], []
    for i in bad:
        m, cty, cval, p_lit, pm_lit, subs = meta[i]
        for what, s in subs:
            detail.append('let T := %s in let v := %s in let p := %s in let pm := %s in %s' % (cty, cval, p_lit, pm_lit, s))
            owner.append((i, what))
    sub_codes = core.coq_codes('c17d', IMPORTS, detail) if detail else {}
    named = {}
    for j, cd in sub_codes.items():
        if cd == 1:
            named.setdefault(owner[j][0], []).append(owner[j][1])
    for i in bad:
        m = meta[i][0]
        T, v = m['T'], m['v']
        fid = classify_equiv(T, v, 7)
        ctx.corr_fail('model and implementation disagree: ' + ', '.join(named.get(i, ['?'])), m,
                      finding=fid if fid in core.open_findings(ctx.pid) else None)


def replay(data):
    case = data.get('case', data)
    T, v = case['T'], case['v']
    print('type :', T); print('value:', v)
    e, d, fail, want = run_native(T, v)
    print('native encoder :', e)
    print('native decoder :', d, '| original content:', want)
    print('native round trip:', fail or 'holds')
    cty, cval = U.coq_ty(T), U.coq_val(T, v)
    print('model to_native:', core.coq_show(IMPORTS, 'to_native %s %s' % (cty, cval)))
    if e[0] == 'ok':
        p_lit = coq_py(e[1])
        print('model of_native:', core.coq_show(IMPORTS, 'of_native %s %s' % (cty, p_lit)))
        if 'any' not in gen.features(T):
            todo = [(case['codec'], case['defMode'], case['maxChunkSize'])] if case.get('part') == 'equiv' else \
                [('BER', True, 0), ('BER', False, 0), ('BER', True, 2), ('CER', True, 0), ('DER', True, 0)]
            for cd, defm, chunk in todo:
                b, a, fail = run_equiv(T, v, cd, defm, chunk)
                print('%s defMode=%s maxChunkSize=%d: bare value %s | value object %s | %s' % (
                    cd, defm, chunk, b and (b[1].hex() if b[0] == 'ok' else b[1:]), a and (a[1].hex() if a[0] == 'ok' else a[1:]),
                    fail or 'same'))
                print('   model encode_py:', core.coq_show(IMPORTS, 'encode_py %s %s %d %s %s' % (cd, cbool(defm), chunk, cty, p_lit)))
    return 0

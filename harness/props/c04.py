"""C04 - DER/CER bytes depend only on the abstract value, not on how it was built.

For random (type, value) the same abstract value is built twice through the public API: once the plain way
(universe.build_value) and once by a random construction history (components assigned in a random order by
name / position / tag, SET OF members in a random order, DEFAULT components explicit or left out, parts obtained
by decoding a random BER form, clones, read-only uses in between).  DER and CER of the two objects must be
identical; re-encoding a decoded DER (CER) encoding must reproduce it.  The Coq encoder model evaluated on the
value as each history built it must give the implementation's bytes."""
import json
from harness import core, codec, gen, universe as U, implrun as I
from harness.gen import base_desc
from harness import containers as C
from pyasn1 import error
from pyasn1.type import univ

CONSTRUCTED = ('seq', 'set', 'seqof', 'setof', 'choice')


class Builder(object):
    """one construction history of (T, v); `log` records what was done, `hits` the finding classes entered"""

    def __init__(self, rng, wild, stats):
        self.r, self.wild, self.stats = rng, wild, stats
        self.log, self.hits = [], set()
        self.shuffled = False        # some SET OF got its members in another order than the plain twin
        self.decoded = False         # some part came out of a decoder (DEFAULT members equal to the default come back absent)

    def say(self, s):
        if len(self.log) < 200:
            self.log.append(s)

    # -- read-only uses -------------------------------------------------------------------------
    def quiet(self, f):
        try:
            f()
        except error.PyAsn1Error:
            self.stats['reads raising PyAsn1Error'] += 1
        except (IndexError, KeyError):
            self.stats['reads raising a lookup error'] += 1
        except Exception as e:  # noqa - e.g. OverflowError from REAL comparison through float: the read failed, nothing more
            self.stats['reads raising %s' % type(e).__name__] += 1

    def common_reads(self, obj, path):
        r = self.r
        k = r.randrange(10)
        self.stats['interleaved reads'] += 1
        if k == 0:
            c = r.choice(['BER', 'CER', 'DER']); self.say('%s: encode %s' % (path, c)); I.run_encode(c, obj)
        elif k == 1:
            self.say('%s: prettyPrint' % path); self.quiet(obj.prettyPrint)
        elif k == 2:
            self.say('%s: str/repr' % path); self.quiet(lambda: (str(obj), repr(obj)))
        elif k == 3:
            self.say('%s: iterate' % path); self.quiet(lambda: list(iter(obj)))
        elif k == 4:
            self.say('%s: len' % path); self.quiet(lambda: len(obj))
        elif k == 5:
            self.say('%s: isValue' % path); self.quiet(lambda: obj.isValue)
        elif k == 6:
            self.say('%s: == / !=' % path); self.quiet(lambda: (obj == obj.clone(), obj != 5))
        elif k == 7:
            self.say('%s: BER indefinite chunked encode' % path); I.run_encode('BER', obj, defMode=False, maxChunkSize=3)
        elif k == 9:
            self.say('%s: retagged / re-constrained types derived by clone(...) / subtype(...), results discarded' % path); derive_types(obj)
        else:
            self.say('%s: bool' % path); self.quiet(lambda: bool(obj))

    def rec_reads(self, obj, b, assigned, v, path):
        r = self.r
        n = len(b[1])
        for _ in range(r.choice([0, 0, 1, 2])):
            if n and r.random() < 0.5:
                i = r.randrange(n)
                ft = b[1][i][1]
                kind = base_desc(ft)[0]
                if r.random() < 0.5:
                    self.say('%s: getComponentByPosition(%d, instantiate=False)' % (path, i))
                    self.quiet(lambda: obj.getComponentByPosition(i, instantiate=False))
                    self.quiet(lambda: obj.getComponentByName('f%d' % i, default=None, instantiate=False))
                elif i in assigned or kind not in ('seq', 'set'):
                    # the default instantiate=True read; an unassigned SEQUENCE/SET member is left alone: its
                    # placeholder may count as a present, empty value (all members OPTIONAL)
                    self.say('%s: read component %d (instantiate=True)' % (path, i))
                    self.quiet(lambda: obj[i] if r.random() < 0.5 else obj['f%d' % i])
                    self.stats['instantiating reads'] += 1
            elif all(not (fv is None and base_desc(ft)[0] in ('seq', 'set')) for (p, ft), fv in zip(b[1], v[1])) and r.random() < 0.3:
                self.say('%s: values()/items()/keys()' % path)
                self.quiet(lambda: (list(obj.values()), list(obj.items()), list(obj.keys())))
                self.stats['instantiating reads'] += 1
            else:
                self.common_reads(obj, path)

    # -- construction ---------------------------------------------------------------------------
    def via_decode(self, T, v, spec, path):
        """the value decoded from a random BER form of itself, or None when that route is not usable"""
        r = self.r
        a = U.build_value(T, v, spec=spec)
        want = U.absval_top(a, T)
        form = r.choice(['indef', 'indef-chunked', 'def-chunked', 'CER', 'DER'])
        if form.startswith('indef') and codec.f01_applies(T, v, True):
            form = 'def-chunked'
        if form == 'CER' and codec.f01_applies(T, v, True):
            form = 'DER'
        if form == 'indef': e = I.run_encode('BER', a, defMode=False)
        elif form == 'indef-chunked': e = I.run_encode('BER', a, defMode=False, maxChunkSize=r.choice([1, 2, 5]))
        elif form == 'def-chunked': e = I.run_encode('BER', a, maxChunkSize=r.choice([1, 2, 5]))
        else: e = I.run_encode(form, a)
        if e[0] != 'ok':
            self.stats['decode route: not encodable'] += 1
            return None
        d = I.run_decode('BER', e[1], asn1Spec=spec)
        if d[0] != 'ok' or d[2] or not U.aval_eq(U.absval_top(d[1], T), want):
            self.stats['decode route: does not read back (C01/C02 matter)'] += 1
            return None
        if form in ('CER', 'DER') and 'setof' in gen.features(T):
            self.shuffled = True          # canonical forms carry SET OF members in sorted order
        self.say('%s: decoded from its %s form (%d octets)' % (path, form, len(e[1])))
        self.stats['built by decoding: ' + form] += 1
        self.decoded = True
        return d[1]

    def build(self, T, v, spec, path='v', top=False):
        """-> (object, value descriptor as this history assigned it)"""
        r = self.r
        b = base_desc(T)
        k = b[0]
        if k not in CONSTRUCTED:
            return U.build_value(T, v, spec=spec), v
        if r.random() < (0.2 if top else 0.1):
            o = self.via_decode(T, v, spec, path)
            if o is not None:
                return o, v
        if k in ('seq', 'set'):
            obj, vb = self.build_rec(T, v, spec, path)
        elif k in ('seqof', 'setof'):
            obj, vb = self.build_list(T, v, spec, path)
        else:
            obj, vb = self.build_choice(T, v, spec, path)
        if r.random() < 0.2 and (self.wild or not has_memberless_record(T, v)):
            self.say('%s: clone(cloneValueFlag=True)' % path)
            self.stats['clones'] += 1
            if has_memberless_record(T, v):
                self.hits.add('F18j')
            obj = obj.clone(cloneValueFlag=True)
        return obj, vb

    def build_rec(self, T, v, spec, path, obj=None):
        r = self.r
        b = base_desc(T)
        if obj is None:
            obj = spec.clone()
        order = list(range(len(b[1])))
        r.shuffle(order)
        vb = [None] * len(b[1])
        assigned = set()
        for i in order:
            (p, ft), fv = b[1][i], v[1][i]
            cs = spec.componentType[i].asn1Object
            if fv is None:
                if isinstance(p, tuple) and r.random() < 0.5:
                    fv = p[1]                      # DEFAULT left out by the plain history, explicit here
                    self.stats['DEFAULT made explicit'] += 1
                else:
                    continue
            elif isinstance(p, tuple) and codec.default_equal(ft, fv, p[1]) and r.random() < 0.4:
                self.stats['explicit DEFAULT left out'] += 1
                self.say('%s.f%d: left out (equals the DEFAULT)' % (path, i))
                continue
            sub, subv = self.build(ft, fv, cs, '%s.f%d' % (path, i))
            how = r.choice(['pos', 'item-pos', 'name', 'item-name', 'type'])
            if how == 'type' and not (b[0] == 'set' and cs.tagSet):
                how = 'name'
            self.say('%s.f%d: assigned by %s' % (path, i, how))
            self.stats['assign by ' + how] += 1
            if how == 'pos': obj.setComponentByPosition(i, sub)
            elif how == 'item-pos': obj[i] = sub
            elif how == 'name': obj.setComponentByName('f%d' % i, sub)
            elif how == 'item-name': obj['f%d' % i] = sub
            else: obj.setComponentByType(cs.tagSet, sub)
            vb[i] = subv
            assigned.add(i)
            self.rec_reads(obj, b, assigned, v, path)
        if not assigned:
            obj.clear()
        self.rec_reads(obj, b, assigned, v, path)
        return obj, ('rec', vb)

    def list_reads(self, obj, path, dense):
        r = self.r
        for _ in range(r.choice([0, 0, 1])):
            if dense and len(obj) and r.random() < 0.5:
                i = r.randrange(len(obj))
                self.say('%s: read member %d' % (path, i))
                self.quiet(lambda: (obj[i], obj.getComponentByPosition(i, instantiate=False), obj[0:i]))
            else:
                self.common_reads(obj, path)

    def build_list(self, T, v, spec, path):
        r = self.r
        b = base_desc(T)
        obj = spec.clone()
        items = list(v[1])
        if b[0] == 'setof' and len(items) > 1:
            r.shuffle(items)
            self.shuffled = True
            self.stats['SET OF members permuted'] += 1
            self.say('%s: members added in a shuffled order' % path)
        n = len(items)
        vb = [None] * n
        if not items:
            obj.clear()
        # the first m members are appended one after the other; the remaining positions are assigned in a
        # random order (every position is filled in the end; in between the object has holes)
        m = n if (n < 2 or r.random() < 0.5) else r.randrange(0, n - 1)
        elem_kind = base_desc(b[1])[0]
        for j in range(m):
            sub, vb[j] = self.build(b[1], items[j], spec.componentType, '%s[%d]' % (path, j))
            how = r.choice(['append', 'extend', 'pos', 'item'])
            self.stats['add by ' + how] += 1
            if how == 'append': obj.append(sub)
            elif how == 'extend': obj.extend([sub])
            elif how == 'pos': obj.setComponentByPosition(len(obj), sub)
            else: obj[len(obj)] = sub
            self.list_reads(obj, path, True)
            if self.wild and elem_kind != 'any' and r.random() < 0.15:
                self.say('%s: read at the end, s[len(s)] (class F18d)' % path)
                self.hits.add('F18d')
                self.quiet(lambda: obj[len(obj)])
        rest = list(range(m, n))
        r.shuffle(rest)
        if rest:
            self.stats['lists with positions assigned out of order'] += 1
            self.say('%s: positions %s assigned in this order' % (path, rest))
        for j in rest:
            epath = '%s[%d]' % (path, j)
            if elem_kind in ('seq', 'set') and b[1][0] in ('seq', 'set') and r.random() < 0.5:
                # the element is instantiated by reading the position and built in place: s[j]['f0'] = ...
                self.stats['members built in place through s[i][name] = ...'] += 1
                self.say('%s: instantiated by reading s[%d], then filled in place' % (epath, j))
                elem = obj[j] if r.random() < 0.5 else obj.getComponentByPosition(j)
                _, vb[j] = self.build_rec(b[1], items[j], spec.componentType, epath, obj=elem)
            else:
                sub, vb[j] = self.build(b[1], items[j], spec.componentType, epath)
                if r.random() < 0.5:
                    self.say('%s: s[%d] = ...' % (path, j)); obj[j] = sub
                else:
                    self.say('%s: setComponentByPosition(%d, ...)' % (path, j)); obj.setComponentByPosition(j, sub)
                self.stats['positional assignment'] += 1
            self.list_reads(obj, path, False)
        return obj, ('list', vb)

    def build_choice(self, T, v, spec, path):
        r = self.r
        b = base_desc(T)
        obj = spec.clone()
        i = v[1]
        n = len(b[1])
        if n > 1 and r.random() < 0.3:
            j = r.choice([x for x in range(n) if x != i])
            self.say('%s: alternative %d selected first (no value), then replaced' % (path, j))
            obj.setComponentByPosition(j)
        cs = spec.componentType[i].asn1Object
        sub, subv = self.build(b[1][i], v[2], cs, '%s.alt%d' % (path, i))
        how = r.choice(['pos', 'item-pos', 'name', 'item-name', 'type'])
        if how == 'type' and not cs.tagSet:
            how = 'name'
        self.say('%s: alternative %d chosen by %s' % (path, i, how))
        self.stats['assign by ' + how] += 1
        if how == 'pos': obj.setComponentByPosition(i, sub)
        elif how == 'item-pos': obj[i] = sub
        elif how == 'name': obj.setComponentByName('f%d' % i, sub)
        elif how == 'item-name': obj['f%d' % i] = sub
        else: obj.setComponentByType(cs.tagSet, sub)
        for _ in range(r.choice([0, 1, 2])):
            q = r.randrange(5)
            if q == 0:
                self.say('%s: getComponent/getName' % path); self.quiet(lambda: (obj.getComponent(), obj.getName()))
            elif q == 1:
                self.say('%s: read the chosen alternative' % path); self.quiet(lambda: (obj[i], obj['f%d' % i]))
            elif q == 2 and n > 1:
                j = r.choice([x for x in range(n) if x != i])
                self.say('%s: getComponentByPosition(%d, instantiate=False) of another alternative' % (path, j))
                self.quiet(lambda: obj.getComponentByPosition(j, instantiate=False))
            else:
                self.common_reads(obj, path)
        if self.wild and n > 1 and r.random() < 0.3:
            j = r.choice([x for x in range(n) if x != i])
            self.say('%s: read of the other alternative %d with instantiate=True (class F18a)' % (path, j))
            self.hits.add('F18a')
            self.quiet(lambda: obj[j])
        return obj, ('ch', i, subv)


def has_memberless_record(T, v):
    """a present value of a SEQUENCE/SET type that declares no components (class of finding F18j under clone)"""
    b = base_desc(T)
    k = b[0]
    if v is None:
        return False
    if k in ('seq', 'set'):
        return not b[1] or any(has_memberless_record(ft, fv) for (p, ft), fv in zip(b[1], v[1]))
    if k in ('seqof', 'setof'):
        return any(has_memberless_record(b[1], x) for x in v[1])
    if k == 'choice':
        return has_memberless_record(b[1][v[1]], v[2])
    return False


def any_contents(T, v):
    b = base_desc(T)
    k = b[0]
    if v is None:
        return
    if k == 'any':
        yield bytes(v[1])
    elif k in ('seq', 'set'):
        for (p, ft), fv in zip(b[1], v[1]):
            yield from any_contents(ft, fv)
    elif k in ('seqof', 'setof'):
        for x in v[1]:
            yield from any_contents(b[1], x)
    elif k == 'choice':
        yield from any_contents(b[1][v[1]], v[2])


def any_canonical(T, v, cdc):
    """every ANY inside carries octets the cdc decoder itself accepts (else the whole is not a cdc encoding)"""
    for blob in any_contents(T, v):
        d = I.run_decode(cdc, blob)
        if d[0] != 'ok' or d[2]:
            return False
    return True


def iteration_ok(obj):
    """every SEQUENCE OF / SET OF inside iterates its members by ascending position"""
    if isinstance(obj, univ.SequenceOfAndSetOfBase):
        cv = obj._componentValues
        if cv is univ.noValue:
            return True
        want = [cv[i] for i in range(len(obj)) if i in cv]
        got = list(iter(obj))
        if len(got) != len(want) or any(x is not y for x, y in zip(got, want)):
            return False
        comps = obj.components          # what == compares (and with it the encoders' DEFAULT test)
        if len(comps) != len(want) or any(x is not y for x, y in zip(comps, want)):
            return False
        return all(iteration_ok(c) for c in want)
    if isinstance(obj, univ.SequenceAndSetBase):
        cv = obj._componentValues
        if cv is univ.noValue:
            return True
        return all(iteration_ok(c) for c in cv if c is not univ.noValue)
    return True


def pos_snap(obj):
    """the object position by position (the order in which positions were assigned is not part of it)"""
    if obj is univ.noValue or obj is None:
        return 'noValue'
    if isinstance(obj, univ.SequenceOfAndSetOfBase):
        cv = obj._componentValues
        return ('of', type(obj).__name__, 'noValue' if cv is univ.noValue else tuple((k, pos_snap(cv[k])) for k in sorted(cv)))
    if isinstance(obj, univ.SequenceAndSetBase):
        cv = obj._componentValues
        return ('rec', type(obj).__name__, getattr(obj, '_currentIdx', None),
                'noValue' if cv is univ.noValue else tuple(pos_snap(c) for c in cv))
    v = obj._value
    # a BIT STRING's payload is an integer carrying its bit length separately: 55 zero bits and no bits print alike
    extra = len(v) if isinstance(v, univ.SizedInteger) else None
    return ('val', type(obj).__name__, 'noValue' if v is univ.noValue else repr(v), extra)


def jsonable(x):
    return json.loads(json.dumps(x, default=lambda b: b.hex() if isinstance(b, (bytes, bytearray)) else repr(b)))


def check_case(ctx, c, wild, exprs, meta):
    T, v = c.T, c.v
    bld = Builder(ctx.rng, wild, ctx.stats)
    try:
        objB, vB = bld.build(T, v, c.spec, top=True)
    except Exception as e:  # noqa - the public API refused a step of the history
        ctx.prop_fail('a construction history was refused by the API: %s' % type(e).__name__,
                      {'T': jsonable(T), 'v': jsonable(v), 'history': bld.log, 'error': str(e)[:300]},
                      finding=(sorted(bld.hits)[0] if bld.hits else None))
        return
    nontrivial = base_desc(T)[0] in CONSTRUCTED
    ctx.case((c.cty, c.cval, tuple(bld.log)), nontrivial and len(bld.log) >= 2)
    ctx.stats['history length %s' % ('0-3' if len(bld.log) < 4 else '4-9' if len(bld.log) < 10 else '10+')] += 1
    m = {'T': jsonable(T), 'v': jsonable(v), 'history_B': bld.log, 'value_as_built_by_B': jsonable(vB)}
    gotB = U.absval_top(objB, T)
    same_abs = U.aval_eq(gotB, c.want)
    fid = sorted(bld.hits)[0] if bld.hits else None
    if not same_abs:
        ctx.prop_fail('the construction history did not reach the intended abstract value', dict(m, got=jsonable(gotB), want=jsonable(c.want)), finding=fid)
        ctx.stats['prop_fail:' + (fid or 'unexplained')] += 1
        return
    if not iteration_ok(objB) or not iteration_ok(c.obj):
        ctx.prop_fail('a SEQUENCE OF / SET OF does not list its members (iteration, .components) by ascending position', m, finding=fid)
        ctx.stats['prop_fail:' + (fid or 'unexplained')] += 1
    if pos_snap(c.obj) == pos_snap(objB):
        ctx.stats['== comparisons between the two objects'] += 1
        try:
            eq = (c.obj == objB, objB == c.obj)
        except Exception as e:  # noqa - == raises on unassigned members and compares REAL through float
            ctx.stats['== raised %s' % type(e).__name__] += 1
            eq = None
        if eq is not None and not (eq[0] and eq[1]):
            ctx.prop_fail('two objects that are identical position by position do not compare equal', m, finding=fid)
            ctx.stats['prop_fail:' + (fid or 'unexplained')] += 1
    if not bld.shuffled:
        ba, bb = I.run_encode('BER', c.obj), I.run_encode('BER', objB)
        ctx.stats['BER comparisons'] += 1
        if (ba[0], ba[1]) != (bb[0], bb[1]):
            ctx.prop_fail('BER (definite) bytes differ between two objects with the same abstract value and member order',
                          dict(m, bytes_plain=jsonable(ba[1]), bytes_history=jsonable(bb[1])), finding=fid)
            ctx.stats['prop_fail:' + (fid or 'unexplained')] += 1
    for cdc in ('DER', 'CER'):
        ea = I.run_encode(cdc, c.obj)
        eb = I.run_encode(cdc, objB)
        ea2 = I.run_encode(cdc, c.obj)          # after the first encode and the reads: still the same
        if (ea[0], ea[1]) != (eb[0], eb[1]) or (ea[0], ea[1]) != (ea2[0], ea2[1]):
            f = fid or codec.classify_roundtrip(T, v, cdc, cdc == 'CER')
            ctx.prop_fail('%s bytes differ between two objects with the same abstract value' % cdc,
                          dict(m, codec=cdc, bytes_plain=jsonable(ea[1]), bytes_history=jsonable(eb[1]), second_encode=jsonable(ea2[1])), finding=f)
            ctx.stats['prop_fail:' + (f or 'unexplained')] += 1
        if not getattr(ctx, 'search_only', False):
            exprs.append(codec.enc_expr(cdc, True, 0, c, ea)); meta.append(dict(m, kind='plain', codec=cdc))
            exprs.append('enc_code (encode %s true 0 %s %s) %s' % (cdc, c.cty, U.coq_val(T, vB), I.coq_res_bytes(eb)))
            meta.append(dict(m, kind='history', codec=cdc))
        # re-encoding the decoded canonical encoding reproduces it
        if ea[0] == 'ok' and cdc == 'CER' and codec.f01_applies(T, v, True):
            # finding F01 (listed for C01 C02 C03 C07 C13 C18): the CER output is not a well-formed encoding at all
            ctx.stats['re-encode skipped: CER output of the F01 class'] += 1
        elif ea[0] == 'ok' and not any_canonical(T, v, cdc):
            ctx.stats['re-encode skipped: an ANY carries octets that are not %s' % cdc] += 1
        elif ea[0] == 'ok':
            d = I.run_decode(cdc, ea[1], asn1Spec=c.spec)
            what = None
            if d[0] != 'ok': what = 'the %s decoder refuses the %s encoding (%s)' % (cdc, cdc, d[1])
            elif d[2]: what = 'the %s decoder leaves a remainder' % cdc
            else:
                e2 = I.run_encode(cdc, d[1])
                if e2[0] != 'ok' or e2[1] != ea[1]:
                    what = 're-encoding the decoded %s encoding does not reproduce it' % cdc
                    m = dict(m, reencoded=jsonable(e2[1]))
            ctx.stats['re-encode checks'] += 1
            if what:
                f = codec.classify_roundtrip(T, v, cdc, cdc == 'CER')
                ctx.prop_fail(what, dict(m, codec=cdc, bytes=ea[1].hex()), finding=f)
                ctx.stats['prop_fail:' + (f or 'unexplained')] += 1


def targeted():
    out = []
    seq = ('seq', [('req', ('int',)), (('def', ('i', 5)), ('imp', (128, 0, 1), ('int',))), ('opt', ('imp', (128, 0, 2), ('octs',))),
                   ('req', ('setof', ('int',)))])
    out.append(codec.Case(seq, ('rec', [('i', 1), None, ('o', b'ab'), ('list', [('i', 256), ('i', 1), ('i', -1), ('i', 255)])])))
    out.append(codec.Case(seq, ('rec', [('i', 1), ('i', 5), None, ('list', [])])))
    st = ('set', [('req', ('imp', (128, 0, 2), ('int',))), ('opt', ('bool',)), (('def', ('b', True)), ('imp', (64, 0, 1), ('bool',))),
                  ('req', ('choice', [('imp', (128, 0, 5), ('int',)), ('octs',)]))])
    out.append(codec.Case(st, ('rec', [('i', 7), ('b', False), ('b', True), ('ch', 1, ('o', b'x'))])))
    out.append(codec.Case(st, ('rec', [('i', 7), None, None, ('ch', 0, ('i', 300))])))
    out.append(codec.Case(('setof', ('octs',)), ('list', [('o', b''), ('o', b'\x00'), ('o', b'\x00\x00'), ('o', b'a'), ('o', b'ab'), ('o', b'a\x00')])))
    out.append(codec.Case(('setof', ('seq', [('req', ('int',)), ('opt', ('octs',))])),
                          ('list', [('rec', [('i', 2), None]), ('rec', [('i', 1), ('o', b'z')]), ('rec', [('i', 1), None])])))
    return out


def constructed_default_cases(ctx, n):
    """SEQUENCE/SET types with DEFAULT components of SEQUENCE OF / SEQUENCE type whose default holds several members,
    and values equal to the default, absent, or different (the universe generator only puts scalar DEFAULTs)"""
    r = ctx.rng
    g = gen.Gen(r, depth=1)
    rec2 = ('seq', [('req', ('int',)), ('req', ('octs',))])
    out = []
    for _ in range(n):
        elem = r.choice([('int',), ('int',), ('octs',), rec2, ('seqof', ('int',))])
        # DEFAULT records with OPTIONAL members, absent in the default and/or in the value (the encoders' DEFAULT test is
        # `component == default`; reads leave placeholders in such members: the class repaired as F20)
        mid = ('seq', [('req', rec2), ('req', ('int',)), ('req', ('seqof', rec2)),
                       ('opt', ('imp', (128, 0, 7), ('octs',))), ('opt', ('imp', (128, 0, 8), ('int',)))])
        ft = r.choice([('seqof', elem), ('seqof', elem), rec2 if elem[0] != 'seqof' else ('seqof', elem), mid, mid])
        if ft[0] == 'seqof':
            items = []
            while len(items) < r.randint(2, 4):
                x = g.val(ft[1])
                if x not in items:
                    items.append(x)
            dv = ('list', items)
        else:
            dv = g.val(ft)
            if ft is mid:
                lst = dv[1][2] if dv[1][2][1] else ('list', [g.val(rec2)])
                dv = ('rec', [dv[1][0], dv[1][1], lst, dv[1][3] if r.random() < 0.4 else None, dv[1][4] if r.random() < 0.4 else None])
        fields = [('req', ('int',)), (('def', dv), ('imp', (128, 0, 1), ft)), ('opt', ('imp', (128, 0, 2), ('octs',)))]
        if r.random() < 0.4:
            fields.append((('def', ('i', 5)), ('imp', (128, 0, 3), ('int',))))
        r.shuffle(fields)
        T = (r.choice(['seq', 'set']), fields)
        if r.random() < 0.3:
            T = ('seqof', T)
        def value_for(T):
            if T[0] == 'seqof':
                return ('list', [value_for(T[1]) for _ in range(r.randint(1, 2))])
            vs = []
            for p, f in T[1]:
                if isinstance(p, tuple) and base_desc(f)[0] in CONSTRUCTED:
                    q = r.random()
                    if q < 0.55: vs.append(p[1])                      # equal to the default, assigned explicitly
                    elif q < 0.75: vs.append(None)
                    elif p[1][0] == 'list': vs.append(('list', list(reversed(p[1][1]))))   # same members, another order
                    elif len(p[1][1]) == 5 and r.random() < 0.6:                              # the default with other OPTIONAL members
                        vs.append(('rec', list(p[1][1][:3]) + [('o', b'q') if r.random() < 0.5 else None, None]))
                    else: vs.append(g.val(f))
                elif p == 'opt' and r.random() < 0.5: vs.append(None)
                elif isinstance(p, tuple) and r.random() < 0.5: vs.append(None)
                else: vs.append(g.val(f))
            return ('rec', vs)
        v = value_for(T)
        try:
            out.append(codec.Case(T, v))
        except Exception:  # noqa
            ctx.stats['unbuildable'] += 1
    return out


# ---------------------------------------------------------------------------------------------
# values must not share mutable parts: clones, and DEFAULT components instantiated by a read

def constructed_children(node):
    cv = node._componentValues
    if cv is univ.noValue:
        return []
    vals = list(cv.values()) if isinstance(cv, dict) else list(cv)
    return [c for c in vals if c is not univ.noValue and isinstance(c, (univ.SequenceOfAndSetOfBase, univ.SequenceAndSetBase)) and c.isValue]


def edit_here(node, rng):
    """change the abstract content of this constructed node in place, through the public API"""
    if isinstance(node, univ.SequenceOfAndSetOfBase):
        if len(node) == 0:
            return None
        first = node[0]
        node.append(first.clone(cloneValueFlag=True) if isinstance(first, (univ.SequenceOfAndSetOfBase, univ.SequenceAndSetBase)) else first)
        return 'append a copy of member 0'
    if isinstance(node, univ.Choice):
        return None
    cv = node._componentValues
    if cv is univ.noValue:
        return None
    order = list(range(len(cv)))
    rng.shuffle(order)
    for k in order:
        c = cv[k]
        if c is univ.noValue or not c.isValue:
            continue
        if isinstance(c, univ.Integer) and not isinstance(c, univ.Boolean) and type(c) in (univ.Integer,):
            node[k] = int(c._value) + 1; return 'member %d: integer + 1' % k
        if isinstance(c, univ.Boolean):
            node[k] = 0 if int(c._value) else 1; return 'member %d: boolean flipped' % k
        if type(c) is univ.OctetString:
            node[k] = bytes(c._value) + b'!'; return 'member %d: octets extended' % k
        if node.componentType[k].isOptional:
            node.setComponentByPosition(k); return 'OPTIONAL member %d dropped' % k
    return None


def deep_edit(node, rng, min_depth, depth=0, path='.'):
    """descend at random (at least min_depth levels) and edit in place; -> description or None"""
    kids = constructed_children(node)
    order = list(range(len(kids)))
    rng.shuffle(order)
    if depth >= min_depth and (not kids or rng.random() < 0.4):
        how = edit_here(node, rng)
        if how:
            return '%s %s' % (path, how)
    for j in order:
        r = deep_edit(kids[j], rng, min_depth, depth + 1, path + '/%s' % type(kids[j]).__name__)
        if r:
            return r
    if depth >= min_depth:
        how = edit_here(node, rng)
        if how:
            return '%s %s' % (path, how)
    return None


def value_snap(obj, T):
    return (I.run_encode('DER', obj)[:2], I.run_encode('CER', obj)[:2], U.absval_top(obj, T), pos_snap(obj))


def snap_diff(a, b):
    names = ['DER', 'CER', 'abstract content', 'members']
    return [n for n, x, y in zip(names, a, b) if (not U.aval_eq(x, y) if n == 'abstract content' and x[0] != 'bad' else x != y)]


def default_positions(T):
    b = base_desc(T)
    if b[0] not in ('seq', 'set'):
        return []
    return [i for i, (p, ft) in enumerate(b[1]) if isinstance(p, tuple) and base_desc(ft)[0] in ('seq', 'set', 'seqof', 'setof')]


def aliasing_checks(ctx, cases):
    rng = ctx.rng
    for c in cases:
        T, v = c.T, c.v
        if base_desc(T)[0] not in CONSTRUCTED or c.want[0] == 'bad':
            continue
        m = {'T': jsonable(T), 'v': jsonable(v)}
        # (A) a clone and its original: editing one, deep inside, leaves the other as it was
        for who in ('clone', 'original'):
            spec = U.build_type(T)
            x = U.build_value(T, v, spec=spec)
            y = x.clone(cloneValueFlag=True)
            sx, sy = value_snap(x, T), value_snap(y, T)
            if sx[0] != sy[0] or sx[1] != sy[1]:
                if not has_memberless_record(T, v):
                    ctx.prop_fail('a clone encodes differently from its original', dict(m, original=jsonable(sx[:2]), clone=jsonable(sy[:2])))
                continue
            edited, kept, kept_snap = (y, x, sx) if who == 'clone' else (x, y, sy)
            how = deep_edit(edited, rng, min_depth=1)
            if not how:
                continue
            ctx.case(('alias', who, c.cty, c.cval, how), True)
            ctx.stats['deep edits after clone (%s edited)' % who] += 1
            d = snap_diff(kept_snap, value_snap(kept, T))
            if d:
                ctx.prop_fail('editing the %s deep inside changed the %s of the untouched %s' % (who, '/'.join(d), 'original' if who == 'clone' else 'clone'),
                              dict(m, edit=how))
        # (B) a DEFAULT constructed component read (instantiated) and edited in place: the type's DEFAULT stays what it was
        for i in default_positions(T):
            b = base_desc(T)
            spec = U.build_type(T)
            dflt = spec.componentType[i].asn1Object
            ft = b[1][i][1]
            pristine = (pos_snap(dflt), U.absval_top(dflt, ft))
            t = spec.clone()
            for k, ((p, f), fv) in enumerate(zip(b[1], v[1])):
                if k != i and fv is not None:
                    t.setComponentByPosition(k, U.build_value(f, fv, spec=spec.componentType[k].asn1Object))
            comp = t[i] if rng.random() < 0.5 else t.getComponentByName('f%d' % i)
            how = deep_edit(comp, rng, min_depth=rng.choice([0, 1, 1]))
            if not how:
                continue
            ctx.case(('default-edit', c.cty, i, how), True)
            ctx.stats['in-place edits of an instantiated DEFAULT component'] += 1
            mm = dict(m, component=i, edit=how)
            if pos_snap(dflt) != pristine[0]:
                ctx.prop_fail("editing a value's instantiated DEFAULT component changed the DEFAULT value held by the type", mm)
            fresh = spec.clone()
            got = U.absval_top(fresh[i], ft)
            if not U.aval_eq(got, pristine[1]):
                ctx.prop_fail('a fresh object of the type reports an edited value as its DEFAULT', dict(mm, got=jsonable(got), want=jsonable(pristine[1])))
            # the edited value still encodes what it holds: DER reads back to its abstract content
            want = U.absval_top(t, T)
            e = I.run_encode('DER', t)
            if e[0] == 'ok' and want[0] != 'bad':
                d = I.run_decode('DER', e[1], asn1Spec=U.build_type(T))
                if d[0] == 'ok' and not d[2] and not U.aval_eq(U.absval_top(d[1], T), want):
                    ctx.prop_fail('DER of a value whose DEFAULT component was edited in place does not carry the edit',
                                  dict(mm, der=e[1].hex()), finding=codec.classify_roundtrip(T, v, 'DER', False))


def has_unassigned_record(T, v):
    """a present SEQUENCE/SET value none of whose members is assigned (class of finding F20b: its slot list is
    empty until a member is read, and == compares the slot lists)"""
    b = base_desc(T)
    k = b[0]
    if v is None:
        return False
    if k in ('seq', 'set'):
        if all(fv is None for fv in v[1]):
            return True
        return any(has_unassigned_record(ft, fv) for (p, ft), fv in zip(b[1], v[1]))
    if k in ('seqof', 'setof'):
        return any(has_unassigned_record(b[1], x) for x in v[1])
    if k == 'choice':
        return has_unassigned_record(b[1][v[1]], v[2])
    return False


def safe_eq(a, b):
    try:
        return ('ok', bool(a == b), bool(b == a))
    except Exception as e:  # noqa
        return ('raised', type(e).__name__)


def touch_absent_optionals(node, log, path='v'):
    """read (instantiate=True) every absent scalar OPTIONAL member of every SEQUENCE/SET inside: leaves placeholders"""
    n = 0
    if isinstance(node, univ.Choice):
        cv = node._componentValues
        if cv is not univ.noValue and node._currentIdx is not None:
            n += touch_absent_optionals(cv[node._currentIdx], log, path + '.alt')
        return n
    if isinstance(node, univ.SequenceOfAndSetOfBase):
        cv = node._componentValues
        if cv is not univ.noValue:
            for k in sorted(cv):
                n += touch_absent_optionals(cv[k], log, '%s[%d]' % (path, k))
        return n
    if isinstance(node, univ.SequenceAndSetBase):
        cv = node._componentValues
        nts = node.componentType.namedTypes
        for k, nt in enumerate(nts):
            c = cv[k] if (cv is not univ.noValue and k < len(cv)) else univ.noValue
            if c is univ.noValue or (not isinstance(c, base_types) and not c.isValue):
                if nt.isOptional and not isinstance(nt.asn1Object, base_types):
                    try:
                        node[k]
                        n += 1
                        log.append('%s: read absent OPTIONAL member %d' % (path, k))
                    except Exception:  # noqa
                        pass
            elif isinstance(c, base_types):
                n += touch_absent_optionals(c, log, '%s.f%d' % (path, k))
        return n
    return n


base_types = (univ.SequenceOfAndSetOfBase, univ.SequenceAndSetBase)


def reads_inert_checks(ctx, cases):
    """reading absent OPTIONAL members (which leaves schema placeholders behind) changes neither DER/CER, nor what == answers
    against a twin built without the reads, nor the clone"""
    for c in cases:
        T, v = c.T, c.v
        if base_desc(T)[0] not in CONSTRUCTED or c.want[0] == 'bad':
            continue
        x = U.build_value(T, v, spec=U.build_type(T))
        twin = U.build_value(T, v, spec=U.build_type(T))
        before = (I.run_encode('DER', x)[:2], I.run_encode('CER', x)[:2], I.run_encode('BER', x)[:2], safe_eq(x, twin))
        log = []
        if not touch_absent_optionals(x, log):
            continue
        ctx.case(('reads-inert', c.cty, c.cval), True)
        ctx.stats['values whose absent OPTIONAL members were read'] += 1
        after = (I.run_encode('DER', x)[:2], I.run_encode('CER', x)[:2], I.run_encode('BER', x)[:2], safe_eq(x, twin))
        m = {'T': jsonable(T), 'v': jsonable(v), 'reads': log[:20]}
        f20b = 'F20b' if has_unassigned_record(T, v) else None
        for name, a, b in zip(['DER', 'CER', 'BER', '== against a twin built without the reads'], before, after):
            if a != b:
                ctx.prop_fail('reading absent OPTIONAL members changed %s' % name, dict(m, before=jsonable(a), after=jsonable(b)),
                              finding=(f20b if name.startswith('==') else None))
        if not has_memberless_record(T, v):
            y = x.clone(cloneValueFlag=True)
            ey = (I.run_encode('DER', y)[:2], I.run_encode('CER', y)[:2])
            if ey != after[:2]:
                ctx.prop_fail('a clone taken after absent OPTIONAL members were read encodes differently', dict(m, clone=jsonable(ey), original=jsonable(after[:2])))
            elif safe_eq(y, twin) != before[3]:
                ctx.prop_fail('a clone taken after absent OPTIONAL members were read compares differently with the twin',
                              dict(m, clone=jsonable(safe_eq(y, twin)), original=jsonable(before[3])), finding=f20b)


def derive_types(x, quiet=None):
    """read-only uses of x that build other type/value objects FROM it (results discarded): retagged, re-constrained
    flavours by clone(...) and subtype(...)"""
    from pyasn1.type import tag as _tag, constraint as _cn
    t1 = _tag.Tag(_tag.tagClassContext, _tag.tagFormatSimple, 9)
    t2 = _tag.Tag(_tag.tagClassApplication, _tag.tagFormatConstructed, 40)
    ops = [lambda: x.clone(tagSet=x.tagSet.tagExplicitly(t2) if x.tagSet else _tag.initTagSet(t2)),
           lambda: x.subtype(explicitTag=t1),
           lambda: x.clone(subtypeSpec=_cn.ConstraintsIntersection())]
    if x.tagSet:
        ops.append(lambda: x.subtype(implicitTag=t2))
    if isinstance(x, (univ.SequenceOfAndSetOfBase, univ.SequenceAndSetBase)):
        ops.append(lambda: x.clone(componentType=x.componentType))
    for f in ops:
        try:
            f()
        except error.PyAsn1Error:
            pass


def derive_inert_checks(ctx, cases):
    """deriving other types from a value (clone/subtype with overriding tags or constraints, results thrown away) is a
    read-only use: afterwards the value, its clone(cloneValueFlag=True), a value decoded with it as the guiding object, and
    (simple types) a value made from it by clone(v) all encode as before"""
    for c in cases:
        T, v = c.T, c.v
        if c.want[0] == 'bad':
            continue
        x = U.build_value(T, v, spec=U.build_type(T))
        before = (I.run_encode('DER', x)[:2], I.run_encode('CER', x)[:2])
        if before[0][0] != 'ok':
            continue
        derive_types(x)
        ctx.case(('derive-inert', c.cty, c.cval), True)
        m = {'T': jsonable(T), 'v': jsonable(v)}
        after = (I.run_encode('DER', x)[:2], I.run_encode('CER', x)[:2])
        if after != before:
            ctx.prop_fail('deriving retagged/re-constrained types from a value changed its DER/CER', dict(m, before=jsonable(before), after=jsonable(after)))
            continue
        constructed = base_desc(T)[0] in CONSTRUCTED
        if constructed and has_memberless_record(T, v):
            continue
        try:
            y = x.clone(cloneValueFlag=True) if constructed else x.clone(x._value)
        except error.PyAsn1Error as e:
            ctx.prop_fail('a value cannot be cloned any more after other types were derived from it: %s' % type(e).__name__, m); continue
        ey = (I.run_encode('DER', y)[:2], I.run_encode('CER', y)[:2])
        if ey != before:
            ctx.prop_fail('a clone taken after other types were derived from the value encodes differently', dict(m, clone=jsonable(ey), original=jsonable(before)))
            continue
        if any_canonical(T, v, 'DER'):
            d = I.run_decode('DER', before[0][1], asn1Spec=x)
            if d[0] == 'ok':
                ez = I.run_encode('DER', d[1])[:2]
                d0 = I.run_decode('DER', before[0][1], asn1Spec=U.build_type(T))
                e0 = I.run_encode('DER', d0[1])[:2] if d0[0] == 'ok' else None
                if e0 is not None and ez != e0:
                    ctx.prop_fail('decoding DER with the value as guiding object, after other types were derived from it, re-encodes differently',
                                  dict(m, reencoded=jsonable(ez), fresh=jsonable(e0)))


def open_type_histories(ctx):
    """The value of an open-type member held three ways - as typed value objects, as ANY values holding the inner DER, and
    as what decoding with the open types resolved returns - is one abstract value: identical DER (and CER where the F01
    class is not involved).  Members: ANY / [0] IMPLICIT ANY / [1] EXPLICIT ANY, alone and as elements of SET OF /
    SEQUENCE OF; inner types with lists nested one and two levels down."""
    from pyasn1.type import namedtype, opentype, tag as _tag
    so_int = univ.SequenceOf(componentType=univ.Integer())
    rec2 = univ.Sequence(componentType=namedtype.NamedTypes(namedtype.NamedType('a', univ.SequenceOf(componentType=univ.OctetString())), namedtype.NamedType('b', univ.Integer())))
    sos = univ.SetOf(componentType=univ.SequenceOf(componentType=univ.Boolean()))
    inner_types = {1: so_int, 2: rec2, 3: sos, 4: univ.Integer()}
    def inner_value(g, j):
        if g == 1:
            v = so_int.clone(); v.extend([1 + j, 300]); return v
        if g == 2:
            v = rec2.clone(); v['a'].extend([b'x', b'yz'][:1 + j]); v['b'] = 5 + j; return v
        if g == 3:
            v = sos.clone()
            for row in ([True], [False, True])[:1 + j]:
                e = v.componentType.clone(); e.extend(row); v.append(e)
            return v
        return univ.Integer(7 + j)
    taggings = [('ANY', univ.Any()), ('[0] IMPLICIT ANY', univ.Any().subtype(implicitTag=_tag.Tag(128, 0, 0))),
                ('[1] EXPLICIT ANY', univ.Any().subtype(explicitTag=_tag.Tag(128, 32, 1)))]
    der = I.ENC['DER']
    for base_cls in (univ.Sequence, univ.Set):
        for tname, anyT in taggings:
            for lname, mk in ((None, None), ('SET OF', univ.SetOf), ('SEQUENCE OF', univ.SequenceOf)):
                member = anyT if mk is None else mk(componentType=anyT)
                spec = base_cls(componentType=namedtype.NamedTypes(
                    namedtype.NamedType('id', univ.Integer()),
                    namedtype.NamedType('blob', member, openType=opentype.OpenType('id', inner_types))))
                for g in inner_types:
                    if base_cls is univ.Set and tname == 'ANY' and mk is None:
                        continue          # an untagged ANY beside another member of a SET is outside the universe (it is the tag map's catch-all)
                    inners = [inner_value(g, j) for j in range(2 if mk is not None else 1)]
                    desc = '%s { id INTEGER, blob %s%s DEFINED BY id }, id = %d' % (base_cls.__name__.upper(), (lname + ' ') if lname else '', tname, g)
                    for cdc in ('DER', 'CER', 'BER'):
                        if cdc == 'CER' and (g == 4 and tname.startswith('[1]')):
                            continue      # EXPLICIT tag directly over a primitive in indefinite mode: finding F01
                        typed = spec.clone(); typed['id'] = g
                        blobs = spec.clone(); blobs['id'] = g
                        try:
                            # the ANY values hold the inner encoding of the same codec (to the record they are opaque octets)
                            if mk is None:
                                typed['blob'] = inners[0]
                                blobs['blob'] = anyT.clone(I.ENC[cdc].encode(inners[0]))
                            else:
                                for x in inners:
                                    typed['blob'].append(x)
                                    blobs['blob'].append(anyT.clone(I.ENC[cdc].encode(x)))
                        except error.PyAsn1Error:
                            ctx.stats['open-type histories: typed assignment refused'] += 1
                            continue
                        a, b = I.run_encode(cdc, typed)[:2], I.run_encode(cdc, blobs)[:2]
                        ctx.case(('open-history', desc, cdc), True)
                        ctx.stats['open-type histories'] += 1
                        m = {'record': desc, 'codec': cdc, 'typed': jsonable(a), 'as ANY values': jsonable(b)}
                        if a != b:
                            ctx.prop_fail('%s of an open-type member held as typed values differs from the same held as ANY values' % cdc, m)
                            continue
                        if a[0] == 'ok' and cdc != 'BER':
                            d = I.run_decode(cdc, a[1], asn1Spec=spec, decodeOpenTypes=True)
                            if d[0] == 'ok':
                                r = I.run_encode(cdc, d[1])[:2]
                                if r != a:
                                    ctx.prop_fail('re-encoding (%s) the record decoded with its open types resolved does not reproduce the encoding' % cdc, dict(m, reencoded=jsonable(r)))


def fixed_orders(ctx):
    """deterministic histories: every position of a SEQUENCE OF / SET OF first assigned in descending order,
    directly and through an element built in place, against the ascending twin"""
    rec = ('seq', [('req', ('int',)), ('opt', ('octs',))])
    for T, v in [(('seqof', ('int',)), ('list', [('i', 1), ('i', 2), ('i', 3)])),
                 (('setof', ('int',)), ('list', [('i', 1), ('i', 2), ('i', 3)])),
                 (('seqof', rec), ('list', [('rec', [('i', 1), None]), ('rec', [('i', 2), ('o', b'x')]), ('rec', [('i', 3), None])]))]:
        c = codec.Case(T, v)
        for how in ('item', 'pos', 'in-place'):
            b = base_desc(T)
            if how == 'in-place' and b[1][0] != 'seq':
                continue
            obj = c.spec.clone()
            for j in reversed(range(len(v[1]))):
                if how == 'in-place':
                    elem = obj[j]
                    for i, fv in enumerate(v[1][j][1]):
                        if fv is not None:
                            elem['f%d' % i] = U.build_value(b[1][1][i][1], fv)
                else:
                    sub = U.build_value(b[1], v[1][j], spec=c.spec.componentType)
                    if how == 'item': obj[j] = sub
                    else: obj.setComponentByPosition(j, sub)
            ctx.case(('fixed-order', how, c.cty), True)
            ctx.stats['fixed descending-assignment histories'] += 1
            m = {'T': jsonable(T), 'v': jsonable(v), 'history_B': 'positions assigned in descending order (%s)' % how}
            if not U.aval_eq(U.absval_top(obj, T), c.want):
                ctx.prop_fail('the construction history did not reach the intended abstract value', m)
                continue
            if not iteration_ok(obj):
                ctx.prop_fail('a SEQUENCE OF / SET OF does not list its members (iteration, .components) by ascending position', m)
            for cdc in ('DER', 'CER', 'BER'):
                ea, eb = I.run_encode(cdc, c.obj), I.run_encode(cdc, obj)
                if (ea[0], ea[1]) != (eb[0], eb[1]):
                    ctx.prop_fail('%s bytes differ between two objects with the same abstract value%s' % (cdc, ' and member order' if cdc == 'BER' else ''),
                                  dict(m, codec=cdc, bytes_plain=jsonable(ea[1]), bytes_history=jsonable(eb[1])))


def fixed_default_orders(ctx):
    """a DEFAULT SEQUENCE OF component assigned a value equal to its default whose positions were filled in
    descending order: DER/CER must omit it exactly as for the ascending twin and the absent component"""
    T = ('seq', [('req', ('int',)), (('def', ('list', [('i', 1), ('i', 2), ('i', 3)])), ('imp', (128, 0, 1), ('seqof', ('int',))))])
    plain = codec.Case(T, ('rec', [('i', 5), ('list', [('i', 1), ('i', 2), ('i', 3)])]))
    absent = codec.Case(T, ('rec', [('i', 5), None]))
    obj = plain.spec.clone()
    obj['f0'] = 5
    h = plain.spec.componentType[1].asn1Object.clone()
    for j in (2, 1, 0):
        h[j] = j + 1
    obj['f1'] = h
    ctx.case(('fixed-default-order', plain.cty), True)
    ctx.stats['fixed descending-assignment histories'] += 1
    m = {'T': jsonable(T), 'v': jsonable(plain.v), 'history_B': "f1 = a SEQUENCE OF filled as h[2] = 3; h[1] = 2; h[0] = 1"}
    if not iteration_ok(obj):
        ctx.prop_fail('a SEQUENCE OF / SET OF does not list its members (iteration, .components) by ascending position', m)
    for cdc in ('DER', 'CER', 'BER'):
        e = [I.run_encode(cdc, x) for x in (plain.obj, obj, absent.obj)]
        if len(set((x[0], x[1]) for x in e)) != 1:
            ctx.prop_fail('%s bytes differ between two objects with the same abstract value' % cdc,
                          dict(m, codec=cdc, bytes_plain=jsonable(e[0][1]), bytes_history=jsonable(e[1][1]), bytes_default_left_out=jsonable(e[2][1])))


def completed_in_place_histories(ctx):
    """A constructed element of an OPTIONAL / DEFAULT SEQUENCE OF or SET OF member comes into being by a READ (s[0] on
    an empty list hands out a fresh element), the enclosing value is then USED while the element is still incomplete
    (printed, compared, asked isValue, an encoding attempted), and only then is the element completed in place.  The
    finished value must give the octets of the same content built the ordinary way (append of finished elements)."""
    from pyasn1.type import univ as _u, namedtype as _nt
    from pyasn1.codec.der import encoder as _der
    from pyasn1.codec.cer import encoder as _cer
    from pyasn1.codec.ber import encoder as _ber
    el = _u.Sequence(componentType=_nt.NamedTypes(_nt.NamedType('id', _u.Integer()), _nt.OptionalNamedType('tags', _u.SequenceOf(componentType=_u.OctetString()))))
    dflt = _u.SequenceOf(componentType=el); dflt.clear()
    def outer(kind, member):
        nt = {'opt': _nt.OptionalNamedType, 'def': _nt.DefaultedNamedType, 'req': _nt.NamedType}[member]
        lst = (_u.SequenceOf if kind == 'seqof' else _u.SetOf)(componentType=el)
        if member == 'def': lst = lst.clone(); lst.clear()
        return _u.Sequence(componentType=_nt.NamedTypes(_nt.NamedType('k', _u.Integer()), nt('items', lst)))
    uses = {'none': lambda o: None, 'str': lambda o: str(o), 'repr': lambda o: repr(o), 'isValue': lambda o: (o.isValue, o['items'].isValue),
            'eq': lambda o: o == o.clone(), 'encode-attempt': lambda o: _der.encode(o), 'prettyPrint': lambda o: o.prettyPrint(), 'len+iter': lambda o: (len(o['items']), list(o['items']))}
    for kind in ('seqof', 'setof'):
        for member in ('opt', 'def', 'req'):
            for nel in (1, 2):
                for uname, use in uses.items():
                    for when in ('before-any', 'after-first'):
                        T = outer(kind, member)
                        want = T.clone(); want['k'] = 7
                        for i in range(nel):
                            e = el.clone(); e['id'] = i + 1
                            want['items'].append(e)
                        live = T.clone(); live['k'] = 7
                        try:
                            for i in range(nel):
                                item = live['items'][i]                 # comes into being by this read
                                if when == 'before-any' or i > 0:
                                    try: use(live)
                                    except Exception: pass
                                item['id'] = i + 1                      # completed in place
                        except Exception as ex:
                            ctx.stats['completed-in-place: history not possible (%s)' % type(ex).__name__] += 1
                            continue
                        ctx.case(('completed-in-place', kind, member, nel, uname, when), True)
                        ctx.stats['completed-in-place histories'] += 1
                        for cname, enc in (('DER', _der), ('CER', _cer), ('BER', _ber)):
                            try: a = bytes(enc.encode(live)).hex()
                            except Exception as ex: a = 'raised %s' % type(ex).__name__
                            b = bytes(enc.encode(want)).hex()
                            if a != b:
                                ctx.prop_fail('%s of a value whose list element was completed in place after the value had been used differs from the same content built by append' % cname,
                                              {'list': kind, 'member': member, 'elements': nel, 'use_between': uname, 'when': when, 'got': a, 'want': b},
                                              finding=None)
                                break


def default_set_of_orders(ctx):
    """A DEFAULT component of SET OF type: the value equal to the default as a SET (same members, any insertion order)
    is the default and is left out by DER and CER whatever the order it was filled in (finding F68: the comparison with
    the default is an ordered one, so {2,1} against DEFAULT {1,2} is written out - in sorted form, i.e. as {1,2})."""
    from pyasn1.type import univ as _u, namedtype as _nt
    from pyasn1.codec.der import encoder as _der
    from pyasn1.codec.cer import encoder as _cer
    import itertools
    for members in ((1, 2), (3, 1, 2), (5, 5, 6)):
        d = _u.SetOf(componentType=_u.Integer()); d.clear(); d.extend(members)
        for outer in (_u.Sequence, _u.Set):
            T = outer(componentType=_nt.NamedTypes(_nt.DefaultedNamedType('s', d), _nt.NamedType('k', _u.Integer().subtype(implicitTag=__import__('pyasn1.type.tag', fromlist=['x']).Tag(128, 0, 1)))))
            outs = {}
            for perm in sorted(set(itertools.permutations(members))):
                v = T.clone(); v['k'] = 9; v['s'].clear(); v['s'].extend(perm)
                ctx.case(('default-setof-order', outer.__name__, members, perm), True)
                ctx.stats['DEFAULT SET OF filled in every order'] += 1
                outs[perm] = (bytes(_der.encode(v)).hex(), bytes(_cer.encode(v)).hex())
            if len(set(outs.values())) > 1:
                ctx.prop_fail('DER/CER of a record whose DEFAULT SET OF member holds the default\'s members depends on the order they were added in',
                              {'outer': outer.__name__, 'default': list(members), 'encodings_by_order': {str(list(k)): v for k, v in outs.items()}}, finding='F68')


def run(ctx):
    ctx.rule = ('random (type, value) of the universe (depth<=3) plus targeted SET/SET OF/DEFAULT cases and SEQUENCE/SET types with DEFAULT components of SEQUENCE OF / SEQUENCE type (multi-member defaults; values equal to the default, absent, reordered, different); per case one plain object and one '
                'built by a random construction history (random assignment order by name/position/tag, SET OF members shuffled, DEFAULT '
                'explicit or left out, SEQUENCE OF/SET OF positions assigned in a random order by s[i]= / setComponentByPosition after an appended prefix, record members built in place through s[i][name]=, parts decoded from indefinite/chunked BER or CER/DER forms, clone(cloneValueFlag=True), interleaved '
                'encode/print/iterate/len/compare/getComponentBy*(instantiate=False and True) reads and derivations of retagged/re-constrained types by clone(...)/subtype(...)); every 5th history may also enter the '
                'classes of the open findings F18a/F18d/F18j; compared: DER and CER of both, a second encode, re-encoding of the decoded DER/CER; '
                'plus, per case: clone(cloneValueFlag=True) then an in-place edit at least one level down in the clone (resp. the original) with the other side compared to its snapshot (DER, CER, content, members), and DEFAULT constructed components read, edited in place, then the type\'s DEFAULT, a fresh instance and the DER round trip checked; and per case: other types derived from the value, then the value, its clone and a value decoded with it as guiding object re-encoded; open-type members (ANY / IMPLICIT / EXPLICIT ANY, alone and in SET OF / SEQUENCE OF) held as typed values, as ANY values and as decoded with resolution on; non-trivial = constructed type with at least 2 recorded history steps')
    dcases = constructed_default_cases(ctx, ctx.n(40, 400))
    ctx.stats['cases with a DEFAULT component of constructed type'] = len(dcases)
    cases = targeted() + dcases + codec.gen_cases(ctx, ctx.n(150, 2500), depth=3)
    cases += codec.empty_member_grid_cases(ctx, every=4 if ctx.tier == 'quick' else 1)      # empty / non-empty constructed members around OPTIONAL ones
    exprs, meta = [], []
    fixed_orders(ctx)
    fixed_default_orders(ctx)
    aliasing_checks(ctx, cases)
    reads_inert_checks(ctx, cases)
    derive_inert_checks(ctx, cases)
    open_type_histories(ctx)
    for n, c in enumerate(cases):
        for rep in range(2 if base_desc(c.T)[0] in CONSTRUCTED else 1):
            check_case(ctx, c, wild=(n % 5 == 4 and rep == 1), exprs=exprs, meta=meta)
    completed_in_place_histories(ctx)
    default_set_of_orders(ctx)
    ctx.sample({'type': jsonable(cases[0].T), 'value': jsonable(cases[0].v)})
    if exprs:
        codes = core.coq_codes('c04', 'Model.Enc Model.Dec Model.Obs', exprs)
        for i, cd in codes.items():
            if cd == 2:
                ctx.stats['model_declines'] += 1
            else:
                ctx.corr_fail('encoder model and implementation disagree (%s object, %s)' % (meta[i]['kind'], meta[i]['codec']), meta[i])


def replay(data):
    m = data.get('case', data)
    print(json.dumps(m, indent=1)[:4000])
    return 0

"""C11 - decoding result does not depend on the kind of input object.

(a) operation histories on the real pyasn1.codec.streaming.CachingStreamWrapper (over a raw
    non-seekable reader) against a real io.BytesIO over the same octets: property on the
    implementation (outputs equal op by op, for permitted histories) and correspondence with the Coq
    model (Model/Wrapper.v: `wstep` for the wrapper, `sstep` for BytesIO), permitted or not;
(b) the same octets decoded through every substrate kind, values / remainders / errors compared.

The wrapper exists in two modelled variants (Cur = as in the repository, Fix = fixes/F06.diff).
Which one the implementation under test is, is decided by replaying the three-call witness of
theorem C11_refuted_renumber_old on the real class; the correspondence then uses that variant.
The *property* is always judged on the implementation's own outputs."""
import io, os, gzip, zipfile, shutil, itertools, json
from harness import core, coqio
from pyasn1 import error
from pyasn1.type import univ, namedtype, base, tag
from pyasn1.codec import streaming
from pyasn1.codec.ber import encoder as ber_enc, decoder as ber_dec
from pyasn1.codec.cer import encoder as cer_enc, decoder as cer_dec
from pyasn1.codec.der import encoder as der_enc, decoder as der_dec

BUF = io.DEFAULT_BUFFER_SIZE
IMPORTS = 'Base.Bytes Model.Wrapper Gen.Tables'


# ------------------------------------------------------------------------------------------------
# raw streams

class RawNS(object):
    """blocking non-seekable reader: read(n) delivers min(n, what is left)"""
    def __init__(self, b):
        self._b, self._p, self.nones, self.calls = bytes(b), 0, 0, 0

    def seekable(self):
        return False

    def exhausted(self):
        return self._p >= len(self._b)

    def _take(self, n):
        r = self._b[self._p:self._p + n]
        self._p += len(r)
        return r

    def read(self, n=-1):
        self.calls += 1
        if n is None or n < 0:
            n = len(self._b) - self._p
        return self._take(n)


class RawShort(RawNS):
    """non-seekable reader that delivers fewer octets than asked (at least one while any is left)"""
    def __init__(self, b, limits):
        RawNS.__init__(self, b)
        self._limits = limits

    def read(self, n=-1):
        self.calls += 1
        if n is None or n < 0:
            n = len(self._b) - self._p
        return self._take(min(n, self._limits[self.calls % len(self._limits)]))


class RawNonBlocking(RawNS):
    """non-seekable non-blocking reader: now and then answers None ("no data yet") while data
    is still to come; never at the end of the data (the end is reported as b'')"""
    def __init__(self, b, pattern):
        RawNS.__init__(self, b)
        self._pattern = pattern

    def read(self, n=-1):
        self.calls += 1
        if n is None or n < 0:
            n = len(self._b) - self._p
        k = self._pattern[self.calls % len(self._pattern)]
        if k == 0 and not self.exhausted() and n:
            self.nones += 1
            return None
        return self._take(min(n, k) if k else n)


class AbsPosWrapper(streaming.CachingStreamWrapper):
    """reference repair of finding F06 (same change as fixes/F06.diff, done from outside):
    used only to *classify* a failing input - does it stop failing once positions stay absolute?"""
    def __init__(self, raw):
        streaming.CachingStreamWrapper.__init__(self, raw)
        self._c11_off = 0

    def seek(self, n=-1, whence=os.SEEK_SET):
        if whence == os.SEEK_SET:
            n -= self._c11_off
        return self._c11_off + self._cache.seek(n, whence)

    def tell(self):
        return self._c11_off + self._cache.tell()

    @property
    def markedPosition(self):
        return self._markedPosition

    @markedPosition.setter
    def markedPosition(self, value):
        self._markedPosition = value
        p = self._cache.tell()
        if p > BUF:
            self._cache = io.BytesIO(self._cache.read())
            self._c11_off += p


def impl_variant():
    """replay C11_refuted_renumber_old's history on the real class"""
    w = streaming.CachingStreamWrapper(RawNS(b'\x07' * (BUF + 2)))
    w.read(BUF + 1)
    w.markedPosition = w.tell()
    t, m = w.tell(), w.markedPosition
    if (t, m) == (BUF + 1, BUF + 1):
        return 'Fix'
    if (t, m) == (0, 0):
        return 'Cur'
    return 'other:%r' % ((t, m),)


# ------------------------------------------------------------------------------------------------
# (a) operation histories

def seg_data(rng, size):
    """octets made of long runs with a few literal octets in between (cheap as a Coq literal,
    still position sensitive: run lengths are irregular and values differ between neighbours)"""
    out = bytearray()
    v = rng.randrange(256)
    while len(out) < size:
        if rng.random() < 0.2:
            out += bytes(rng.randrange(256) for _ in range(rng.randrange(1, 6)))
        else:
            v = (v + rng.randrange(1, 255)) % 256
            out += bytes([v]) * rng.choice([16, 17, 40, 100, 333, 1000, 2048, 4095])
    return bytes(out[:size])


SIZES = [0, 1, 5, 100, BUF - 1, BUF, BUF + 1, BUF + 2, 2 * BUF - 1, 2 * BUF, 2 * BUF + 1, 3 * BUF + 7, 4 * BUF + 100]
READS = [0, 1, 1, 2, 2, 3, 5, 17, 100, 1000, BUF - 1, BUF, BUF + 1, BUF + 2, 2 * BUF + 3]


def gen_history(rng, size, nops, wild):
    """ops as tuples; generated against the abstract state (pos, mark) so that, unless `wild`,
    the history is permitted: marks at tell(), seeks back to >= mark only"""
    pos, mark, ops = 0, 0, []
    for _ in range(nops):
        r = rng.random()
        if r < 0.32:
            n = rng.choice(READS) if rng.random() < 0.8 else rng.randrange(0, 3 * BUF)
            ops.append(('read', n)); pos = min(size, pos + n) if pos <= size else pos
        elif r < 0.42:
            n = rng.choice(READS) if rng.random() < 0.8 else rng.randrange(0, 3 * BUF)
            ops.append(('peek', n))
        elif r < 0.57:
            v = pos
            if wild and rng.random() < 0.3:
                v = rng.randrange(0, pos + 3)
            ops.append(('mark', v)); mark = v
        elif r < 0.69:
            ops.append(('tell',))
        elif r < 0.74:
            ops.append(('getmark',))
        elif r < 0.86:
            lo, hi = (0, pos + 3) if wild and rng.random() < 0.5 else (min(mark, pos), pos)
            p = rng.choice([lo, hi, rng.randint(lo, hi)])
            ops.append(('seek', p)); pos = p
        elif r < 0.98:
            room = pos - mark if pos >= mark else 0
            if wild and rng.random() < 0.5:
                room = pos + 2
            d = rng.choice([0, 1, 1, 2, 2, min(room, 17), room, rng.randint(0, room)])
            d = min(d, room)
            ops.append(('back', d)); pos = max(0, pos - d)
        else:
            ops.append(('readall',)); pos = max(pos, size)
    return ops


ALPHABET = ['r1', 'rB', 'p3', 'b1', 'mk', 'tl', 'sm', 'gm']


def concretise(word, size):
    """a word over the small alphabet -> ops (marks at the current position, seeks to the mark)"""
    pos, mark, ops = 0, 0, []
    for a in word:
        if a == 'r1': ops.append(('read', 1)); pos = min(size, pos + 1)
        elif a == 'rB': ops.append(('read', BUF + 1)); pos = min(size, pos + BUF + 1)
        elif a == 'p3': ops.append(('peek', 3))
        elif a == 'b1': ops.append(('back', 1)); pos = max(0, pos - 1)
        elif a == 'mk': ops.append(('mark', pos)); mark = pos
        elif a == 'tl': ops.append(('tell',))
        elif a == 'sm': ops.append(('seek', mark)); pos = mark
        elif a == 'gm': ops.append(('getmark',))
    return ops


def analyse(data, ops):
    """abstract run in Python: (permitted?, no-drop?, index of the first op after the first drop)"""
    pos, mark, permitted, first_drop = 0, 0, True, None
    n = len(data)
    for i, o in enumerate(ops):
        k = o[0]
        if k == 'read': pos = pos + len(data[pos:pos + o[1]])
        elif k == 'readall': pos = pos + len(data[pos:])
        elif k == 'seek':
            if not (mark <= o[1] <= pos): permitted = False
            pos = o[1]
        elif k == 'back':
            if not (mark + o[1] <= pos): permitted = False
            pos = max(0, pos - o[1])
        elif k == 'mark':
            if o[1] != pos: permitted = False
            if first_drop is None and pos > BUF: first_drop = i
            mark = o[1]
    return permitted, first_drop is None, first_drop


def _guard(f):
    try:
        return f()
    except ValueError:
        return 'ValueError'
    except Exception as e:          # anything else is a crash of the class under test
        return 'crash:' + type(e).__name__


def run_wrapper(w, ops):
    outs = []
    for o in ops:
        k = o[0]
        if k == 'read': outs.append(_guard(lambda: w.read(o[1])))
        elif k == 'readall': outs.append(_guard(lambda: w.read()))
        elif k == 'peek': outs.append(_guard(lambda: w.peek(o[1])))
        elif k == 'seek': outs.append(_guard(lambda: w.seek(o[1], os.SEEK_SET)))
        elif k == 'back': outs.append(_guard(lambda: w.seek(-o[1], os.SEEK_CUR)))
        elif k == 'tell': outs.append(_guard(w.tell))
        elif k == 'mark':
            def setm(): w.markedPosition = o[1]
            outs.append(_guard(setm))
        elif k == 'getmark': outs.append(_guard(lambda: w.markedPosition))
    return outs


def run_bytesio(s, ops):
    """the same calls on io.BytesIO; peek = read and seek back, as peekIntoStream does it"""
    s.markedPosition = 0
    outs = []
    for o in ops:
        k = o[0]
        if k == 'read': outs.append(_guard(lambda: s.read(o[1])))
        elif k == 'readall': outs.append(_guard(lambda: s.read()))
        elif k == 'peek':
            def pk():
                p = s.tell(); r = s.read(o[1]); s.seek(p); return r
            outs.append(_guard(pk))
        elif k == 'seek': outs.append(_guard(lambda: s.seek(o[1], os.SEEK_SET)))
        elif k == 'back': outs.append(_guard(lambda: s.seek(-o[1], os.SEEK_CUR)))
        elif k == 'tell': outs.append(_guard(s.tell))
        elif k == 'mark':
            def setm(): s.markedPosition = o[1]
            outs.append(_guard(setm))
        elif k == 'getmark': outs.append(_guard(lambda: s.markedPosition))
    return outs


def coq_ops(ops):
    m = {'read': 'rd %d', 'peek': 'pk %d', 'seek': 'sks %d', 'back': 'skb %d', 'mark': 'smk %d'}
    c = {'readall': 'OReadAll', 'tell': 'OTell', 'getmark': 'OGetMark'}
    return coqio.clist([m[o[0]] % o[1] if o[0] in m else c[o[0]] for o in ops])


def coq_outs(outs):
    items = []
    for x in outs:
        if isinstance(x, bytes): items.append('EBytes %s' % coqio.cbytes(x))
        elif x is None: items.append('ENone')
        elif x == 'ValueError': items.append('EErr')
        elif isinstance(x, int) and not isinstance(x, bool) and x >= 0: items.append('ENum %d' % x)
        else: return None           # a crash or an answer outside the model's vocabulary
    return coqio.clist(items)


def show_outs(outs):
    return [('%d octets %s..' % (len(x), x[:8].hex())) if isinstance(x, bytes) and len(x) > 16 else
            (x.hex() if isinstance(x, bytes) else x) for x in outs]


def histories(ctx, variant):
    rng = ctx.rng
    cases = []      # (label, data, ops)
    # 1. the finding's witness and its neighbours
    for size, ops in [(BUF + 2, [('read', BUF + 1), ('mark', BUF + 1), ('tell',)]),
                      (BUF + 2, [('read', BUF), ('mark', BUF), ('tell',), ('read', 1), ('mark', BUF + 1), ('tell',), ('getmark',)]),
                      (3 * BUF, [('read', BUF + 1), ('mark', BUF + 1), ('read', 5), ('seek', BUF + 1), ('peek', 2 * BUF), ('tell',), ('readall',), ('tell',)])]:
        cases.append(('witness', seg_data(rng, size), ops))
    # 2. every history of length <= 4 over the small alphabet
    d0 = seg_data(rng, 2 * BUF + 5)
    words = [w for n in range(1, 5) for w in itertools.product(ALPHABET, repeat=n)]
    for w in words:
        cases.append(('word', d0, concretise(w, len(d0))))
    # 3. random histories
    for i in range(ctx.n(150, 1500)):
        size = rng.choice(SIZES) if rng.random() < 0.7 else rng.randrange(0, 5 * BUF)
        size = min(size, 40000)
        nops = rng.randrange(1, 61 if ctx.tier != 'thorough' else 121)
        wild = rng.random() < 0.2
        cases.append(('wild' if wild else 'random', seg_data(rng, size), gen_history(rng, size, nops, wild)))

    exprs, meta, defs, dnames = [], [], [], {}
    nword_coq = ctx.n(150, len(words))
    word_pick = set(rng.sample(range(len(words)), min(nword_coq, len(words))))
    wi = -1
    for label, data, ops in cases:
        if label == 'word': wi += 1
        permitted, nodrop, first_drop = analyse(data, ops)
        raw = RawNS(data)
        wo = run_wrapper(streaming.CachingStreamWrapper(raw), ops)
        so = run_bytesio(io.BytesIO(data), ops)
        ctx.case((label, data, tuple(ops)), not nodrop)
        ctx.stats['hist_' + label] += 1
        ctx.stats['hist_permitted' if permitted else 'hist_not_permitted'] += 1
        ctx.stats['hist_with_cache_drop' if not nodrop else 'hist_without_cache_drop'] += 1
        ctx.stats['hist_ops'] += len(ops)
        case = {'kind': 'history', 'label': label, 'data_hex_gz': _pack(data), 'size': len(data), 'ops': [list(o) for o in ops],
                'permitted': permitted, 'cache_drop_at_op': first_drop, 'variant': variant}
        # property on the implementation: same answers as a seekable stream, for permitted histories
        if permitted and wo != so:
            k = next(i for i in range(len(ops)) if wo[i] != so[i])
            fid = 'F06' if (first_drop is not None and k > first_drop) else None
            ctx.prop_fail('CachingStreamWrapper answers differently from io.BytesIO over the same octets%s'
                          % (' after the cache was dropped (positions renumbered)' if fid else ''),
                          dict(case, first_difference={'op_index': k, 'op': list(ops[k]), 'wrapper': show_outs([wo[k]])[0],
                                                       'bytesio': show_outs([so[k]])[0]}), finding=fid)
        if any(isinstance(x, str) and x.startswith('crash:') for x in wo):
            ctx.prop_fail('CachingStreamWrapper raised %s' % [x for x in wo if isinstance(x, str)][0], case)
        # correspondence
        if getattr(ctx, 'search_only', False):
            continue
        if label == 'word' and wi not in word_pick:
            continue
        if variant not in ('Cur', 'Fix'):
            continue
        cw, cs = coq_outs(wo), coq_outs(so)
        if cw is None or cs is None:
            ctx.stats['hist_outside_model_vocabulary'] += 1
            continue
        if data not in dnames:
            dnames[data] = 'd%d' % len(dnames)
            defs.append('Definition %s : bytes := %s.' % (dnames[data], coqio.cbytes(data)))
        d, o = dnames[data], coq_ops(ops)
        exprs.append('wrapper_matches %s default_buffer_size %s %s %s' % (variant, d, o, cw))
        meta.append(('wrapper model (variant %s) and CachingStreamWrapper disagree' % variant, case))
        exprs.append('seekable_matches %s %s %s' % (d, o, cs))
        meta.append(('seekable-stream model and io.BytesIO disagree', case))
        exprs.append('Bool.eqb (permittedb (s_init %s) %s) %s && Bool.eqb (nodropb (N.to_nat default_buffer_size) (s_init %s) %s) %s'
                     % (d, o, coqio.cbool(permitted), d, o, coqio.cbool(nodrop)))
        meta.append(('permitted / no-drop predicates of the model and of the harness disagree', case))
    if exprs:
        exprs.append('N.eqb default_buffer_size %d' % BUF)
        meta.append(('Gen.Tables.default_buffer_size differs from io.DEFAULT_BUFFER_SIZE', {'kind': 'const'}))
        for i in core.coq_bools('c11', IMPORTS, exprs, defs='\n'.join(defs), shard=60):
            ctx.corr_fail(meta[i][0], meta[i][1])
        ctx.stats['hist_model_evaluations'] += len(exprs)
    ctx.sample({'history': cases[0][2], 'size': len(cases[0][1])})
    ctx.sample({'history': cases[-1][2][:12], 'size': len(cases[-1][1])})


def _pack(b):
    import zlib, base64
    return base64.b64encode(zlib.compress(bytes(b), 9)).decode()


def _unpack(s):
    import zlib, base64
    return zlib.decompress(base64.b64decode(s))


# ------------------------------------------------------------------------------------------------
# (b) the same octets through every substrate kind

def absval(v):
    """structure of a decoded value without prettyPrint / __eq__ of pyasn1"""
    if v is None:
        return None
    if isinstance(v, bytes):
        return ('rawbytes', v)
    if isinstance(v, error.PyAsn1Error):
        return ('exc', type(v).__name__)
    cls = type(v).__name__
    try:
        tags = tuple((int(t.tagClass), int(t.tagFormat), int(t.tagId)) for t in v.tagSet.superTags)
    except Exception:
        tags = None
    if isinstance(v, univ.Choice):
        try:
            return (cls, tags, v.getName(), absval(v.getComponent()))
        except Exception as e:
            return (cls, tags, 'unset')
    if isinstance(v, (univ.SequenceOf, univ.SetOf)):
        return (cls, tags, tuple(absval(x) for x in v.components)) if v.isValue else (cls, tags, 'novalue')
    if isinstance(v, (univ.Sequence, univ.Set)):
        if not v.isValue and not len(v):
            return (cls, tags, 'novalue')
        comps = []
        for i in range(len(v)):
            c = v.getComponentByPosition(i, default=None, instantiate=False)
            comps.append(absval(c) if c is not None and getattr(c, 'isValue', False) else None)
        return (cls, tags, tuple(comps))
    if not v.isValue:
        return (cls, tags, 'novalue')
    if isinstance(v, univ.OctetString):
        return (cls, tags, v.asOctets())
    if isinstance(v, univ.BitString):
        return (cls, tags, len(v), v.asOctets())
    if isinstance(v, univ.Boolean):
        return (cls, tags, bool(v))
    if isinstance(v, (univ.Integer,)):
        return (cls, tags, int(v))
    if isinstance(v, univ.Null):
        return (cls, tags, 'null')
    if isinstance(v, univ.ObjectIdentifier):
        return (cls, tags, tuple(v))
    return (cls, tags, repr(v))


def _hide(x):
    """absval with long octet strings abbreviated, for reports"""
    if isinstance(x, bytes):
        return x.hex() if len(x) <= 16 else '%d octets %s..' % (len(x), x[:8].hex())
    if isinstance(x, tuple):
        return [_hide(y) for y in x[:12]] + (['.. %d more' % (len(x) - 12)] if len(x) > 12 else [])
    return x


class Kinds(object):
    """factories of substrates presenting the same octets"""
    NAMES = ['bytes', 'BytesIO', 'OctetString', 'Any', 'file', 'gzip', 'zip', 'nonseekable']
    STREAM_ONLY = ['nonseekable-short-reads', 'nonseekable-nonblocking']

    def __init__(self, workdir, rng):
        self.dir, self.rng, self.k = workdir, rng, 0
        os.makedirs(workdir, exist_ok=True)

    def close(self):
        shutil.rmtree(self.dir, ignore_errors=True)

    def prepare(self, b):
        self.k += 1
        self.b = b
        self.path = os.path.join(self.dir, 'in_%d.bin' % self.k)
        with open(self.path, 'wb') as f:
            f.write(b)
        self.gz = self.path + '.gz'
        with gzip.open(self.gz, 'wb', compresslevel=1) as f:
            f.write(b)
        self.zp = self.path + '.zip'
        with zipfile.ZipFile(self.zp, 'w', zipfile.ZIP_DEFLATED) as z:
            z.writestr('member.bin', b)
        self.short_limits = [self.rng.choice([1, 2, 3, 7, 64, 1000, BUF, BUF + 1]) for _ in range(self.rng.randrange(1, 6))]
        self.nb_pattern = [self.rng.choice([0, 0, 1, 5, 200, BUF, 3 * BUF]) for _ in range(self.rng.randrange(2, 7))] + [7]

    def cleanup(self):
        for p in (self.path, self.gz, self.zp):
            try: os.remove(p)
            except OSError: pass

    def open(self, kind):
        """-> (substrate, closers, raw) ; raw is the non-seekable reader behind the wrapper, if any"""
        b = self.b
        if kind == 'bytes': return b, [], None
        if kind == 'BytesIO': return io.BytesIO(b), [], None
        if kind == 'OctetString': return univ.OctetString(b), [], None
        if kind == 'Any': return univ.Any(b), [], None
        if kind == 'file':
            f = open(self.path, 'rb'); return f, [f], None
        if kind == 'gzip':
            f = gzip.GzipFile(self.gz, 'rb'); return f, [f], None
        if kind == 'zip':
            z = zipfile.ZipFile(self.zp); f = z.open('member.bin'); return f, [f, z], None
        if kind == 'nonseekable':
            r = RawNS(b); return r, [], r
        if kind == 'nonseekable-short-reads':
            r = RawShort(b, self.short_limits); return r, [], r
        if kind == 'nonseekable-nonblocking':
            r = RawNonBlocking(b, self.nb_pattern); return r, [], r
        if kind == 'nonseekable/absolute-positions':      # classification only
            r = RawNS(b); return AbsPosWrapper(r), [], r
        raise KeyError(kind)


def decode_outcome(dec, kinds, kind, spec):
    sub, closers, raw = kinds.open(kind)
    try:
        try:
            v, tail = dec.decode(sub, asn1Spec=spec)
            return ('ok', absval(v), bytes(tail))
        except error.PyAsn1Error as e:
            return ('error', type(e).__name__)
        except Exception as e:
            return ('crash', type(e).__name__)
    finally:
        for c in closers:
            try: c.close()
            except Exception: pass


def stream_outcome(dec, kinds, kind, spec):
    """objects produced by StreamingDecoder; underrun notifications are skipped while the source
    still has data to deliver; once it has none, four more in a row mean "waits for ever" """
    sub, closers, raw = kinds.open(kind)
    objs, waits, total = [], 0, 0
    try:
        try:
            for x in dec.StreamingDecoder(sub, asn1Spec=spec):
                if x is None or isinstance(x, error.SubstrateUnderrunError):
                    total += 1
                    if raw is None or raw.exhausted():
                        waits += 1
                        if waits > 3:
                            return ('waits-for-more', tuple(objs))
                    if total > 200000:
                        return ('no-progress', tuple(objs))
                    continue
                waits = 0
                objs.append(absval(x))
            return ('ok', tuple(objs))
        except error.PyAsn1Error as e:
            return ('error', type(e).__name__, tuple(objs))
        except Exception as e:
            return ('crash', type(e).__name__, tuple(objs), raw.nones if raw is not None else 0)
    finally:
        for c in closers:
            try: c.close()
            except Exception: pass


# ---- inputs

def octs(rng, n):
    return bytes([rng.randrange(256)]) * n if n > 24 else bytes(rng.randrange(256) for _ in range(n))


class Rec(univ.Sequence):
    componentType = namedtype.NamedTypes(
        namedtype.NamedType('x', univ.Integer()),
        namedtype.NamedType('y', univ.OctetString()),
        namedtype.OptionalNamedType('z', univ.Boolean()))


class RecList(univ.SequenceOf):
    componentType = Rec()


class Doc(univ.Sequence):
    componentType = namedtype.NamedTypes(
        namedtype.NamedType('a', univ.Integer()),
        namedtype.NamedType('b', RecList()),
        namedtype.NamedType('c', univ.OctetString()),
        namedtype.OptionalNamedType('d', univ.SetOf(componentType=univ.Integer())),
        namedtype.OptionalNamedType('e', univ.OctetString().subtype(explicitTag=tag.Tag(tag.tagClassContext, tag.tagFormatConstructed, 1))))


class Envelope(univ.Sequence):
    componentType = namedtype.NamedTypes(
        namedtype.NamedType('id', univ.ObjectIdentifier()),
        namedtype.NamedType('val', univ.Any()),
        namedtype.OptionalNamedType('tail', univ.OctetString()))


def nested_spec(depth):
    t = univ.OctetString()
    for _ in range(depth):
        t = univ.SequenceOf(componentType=t)
    return t


def nested_value(rng, depth, width, leaf):
    spec = nested_spec(depth)

    def fill(v, d):
        if d == 0:
            return
        n = width if d == 1 else rng.randrange(1, 3)
        for i in range(n):
            if d == 1:
                v.append(octs(rng, leaf))
            else:
                c = v.componentType.clone()
                fill(c, d - 1)
                if d - 1 >= 1 and not len(c):
                    c.append(octs(rng, 1)) if d - 1 == 1 else None
                v.append(c)
    v = spec.clone()
    fill(v, depth)
    return spec, v


def make_value(rng, target):
    """(name, spec, value, schemaless_ok) with an encoding of roughly `target` octets"""
    shape = rng.choice(['wide', 'wide', 'doc', 'doc', 'deep', 'single', 'envelope', 'envelope', 'setof'])
    if shape == 'wide':
        spec = univ.SequenceOf(componentType=univ.OctetString())
        v = spec.clone()
        el = rng.choice([1, 10, 100, 500, 1000, 3000])
        n = max(1, min(target // (el + 3), 300))
        for _ in range(n):
            v.append(octs(rng, el))
        if target > n * (el + 4):
            v.append(octs(rng, target - n * (el + 4)))
        return shape, spec, v, True
    if shape == 'doc':
        v = Doc()
        v['a'] = rng.randrange(-2 ** 40, 2 ** 40)
        n = rng.choice([0, 1, 5, 40, 150])
        per = max(0, min(3000, (target * 2 // 3) // max(n, 1) - 12))
        for i in range(n):
            r = Rec()
            r['x'] = i
            r['y'] = octs(rng, rng.choice([per, per, 0, 1]))
            if rng.random() < 0.5:
                r['z'] = rng.random() < 0.5
            v['b'].append(r)
        if not n:
            v['b'].clear()
        used = len(ber_enc.encode(v['b'])) if n else 2
        v['c'] = octs(rng, max(0, target - used - 20))
        if rng.random() < 0.5:
            for _ in range(rng.randrange(1, 20)):
                v['d'].append(rng.randrange(-300, 70000))
        if rng.random() < 0.4:
            v['e'] = octs(rng, rng.choice([0, 3, 300]))
        return shape, Doc(), v, False
    if shape == 'deep':
        depth = rng.randrange(2, 24)
        spec, v = nested_value(rng, depth, rng.randrange(1, 6), max(1, target // 6))
        return shape, spec, v, True
    if shape == 'single':
        return shape, univ.OctetString(), univ.OctetString(octs(rng, target)), True
    if shape == 'envelope':
        inner_spec = univ.SequenceOf(componentType=univ.OctetString())
        inner = inner_spec.clone()
        for _ in range(rng.randrange(1, 30)):
            inner.append(octs(rng, max(1, target // 20)))
        v = Envelope()
        v['id'] = (1, 3, 6, 1, rng.randrange(0, 70000))
        v['val'] = ber_enc.encode(inner, defMode=rng.random() < 0.6)
        if rng.random() < 0.5:
            v['tail'] = octs(rng, rng.choice([0, 5, BUF + 1]))
        return shape, Envelope(), v, False
    spec = univ.SetOf(componentType=univ.Integer())
    v = spec.clone()
    for _ in range(min(300, max(1, target // 40))):
        v.append(rng.randrange(-2 ** 64, 2 ** 64))
    return 'setof', spec, v, True


def fit(rng, spec, v, enc, target):
    """stretch a trailing OCTET STRING so that the encoding has exactly `target` octets, if that is cheap"""
    b = enc(v)
    if not isinstance(v, univ.SequenceOf) or not isinstance(v.componentType, univ.OctetString) or len(b) + 4 > target:
        return b
    for _ in range(4):
        need = target - len(b)
        if need == 0:
            break
        last = v[len(v) - 1].asOctets()
        n = len(last) + need
        if n < 0:
            break
        v[len(v) - 1] = (last[:1] or b'\x00') * n
        b = enc(v)
    return b


ENCODINGS = [
    ('ber-def', ber_dec, lambda v: ber_enc.encode(v)),
    ('ber-indef', ber_dec, lambda v: ber_enc.encode(v, defMode=False)),
    ('ber-indef-chunked', ber_dec, lambda v: ber_enc.encode(v, defMode=False, maxChunkSize=977)),
    ('ber-def-chunked', ber_dec, lambda v: ber_enc.encode(v, maxChunkSize=4000)),
    ('cer', cer_dec, lambda v: cer_enc.encode(v)),
    ('der', der_dec, lambda v: der_enc.encode(v)),
]


def mutate(rng, b):
    """invalid or truncated variants"""
    how = rng.choice(['cut', 'cut', 'cut-near-buf', 'cut-small', 'flip-head', 'flip-any', 'longer-length', 'garbage-tail', 'junk'])
    if how == 'cut' and len(b) > 1:
        return how, b[:rng.randrange(1, len(b))]
    if how == 'cut-near-buf' and len(b) > BUF + 4:
        k = rng.randrange(1, len(b) // BUF + 1) * BUF + rng.randrange(-3, 4)
        return how, b[:max(1, min(len(b) - 1, k))]
    if how == 'cut-small' and len(b) > 1:
        return how, b[:max(1, len(b) - rng.randrange(1, 4))]
    if how == 'flip-head':
        i = rng.randrange(0, min(len(b), 8)); return how, b[:i] + bytes([b[i] ^ (1 << rng.randrange(8))]) + b[i + 1:]
    if how == 'flip-any':
        i = rng.randrange(0, len(b)); return how, b[:i] + bytes([b[i] ^ (1 << rng.randrange(8))]) + b[i + 1:]
    if how == 'longer-length' and len(b) > 4 and b[1] & 0x80 and b[1] != 0x80:
        k = b[1] & 0x7f
        n = int.from_bytes(b[2:2 + k], 'big') + rng.choice([1, 2, 200])
        if n < 256 ** k:
            return how, b[:2] + n.to_bytes(k, 'big') + b[2 + k:]
    if how == 'garbage-tail':
        return how, b + bytes(rng.randrange(256) for _ in range(rng.randrange(1, 9)))
    return 'junk', bytes(rng.randrange(256) for _ in range(rng.randrange(1, 40)))


def f06_class(kind, b):
    """finding F06 can only bite where the wrapper is in use and can have dropped its cache"""
    return kind.startswith('nonseekable') and len(b) > BUF


def compare_kinds(ctx, kinds, label, encname, dec, spec, b, variant):
    kinds.prepare(b)
    try:
        ref = decode_outcome(dec, kinds, 'bytes', spec)
        sref = stream_outcome(dec, kinds, 'bytes', spec)
        ctx.case(('decode', encname, label, b, type(spec).__name__ if spec is not None else None), len(b) > BUF)
        ctx.stats['dec_inputs'] += 1
        ctx.stats['dec_%s' % encname] += 1
        ctx.stats['dec_size_le_buf' if len(b) <= BUF else 'dec_size_%dxbuf' % min(len(b) // BUF, 4)] += 1
        ctx.stats['dec_outcome_' + ref[0]] += 1
        ctx.stats['dec_stream_outcome_' + sref[0]] += 1
        if abs(len(b) % BUF - BUF // 2) > BUF // 2 - 4 and len(b) >= BUF - 4:
            ctx.stats['dec_size_within_3_of_k_buf'] += 1
        base_case = {'kind': 'decode', 'label': label, 'encoding': encname, 'size': len(b), 'input_hex_gz': _pack(b),
                     'spec': type(spec).__name__ if spec is not None else None, 'variant': variant,
                     'short_limits': kinds.short_limits, 'nb_pattern': kinds.nb_pattern}
        for api, names, fn, refout in (('decode', Kinds.NAMES[1:], decode_outcome, ref),
                                       ('StreamingDecoder', Kinds.NAMES[1:] + Kinds.STREAM_ONLY, stream_outcome, sref)):
            for kind in names:
                got = fn(dec, kinds, kind, spec)
                ctx.stats['dec_runs'] += 1
                if got[:3] == refout[:3]:
                    continue
                fid = None
                if kind == 'nonseekable-nonblocking' and got[0] == 'crash' and got[1] == 'TypeError' and got[-1] > 0:
                    fid = 'F05'       # None from the raw stream reached BytesIO.write
                elif f06_class(kind, b) and kind == 'nonseekable':
                    if fn(dec, kinds, 'nonseekable/absolute-positions', spec)[:3] == refout[:3]:
                        fid = 'F06'   # disappears once positions stay absolute
                elif f06_class(kind, b) and variant == 'Cur':
                    fid = 'F06'
                ctx.prop_fail('%s gives a different result for the same octets presented as %s%s' % (
                    api, kind, {'F06': ' (cache dropped, positions renumbered)', 'F05': ' (None from raw.read)', None: ''}[fid]),
                    dict(base_case, api=api, substrate=kind, from_bytes=_hide(refout), from_substrate=_hide(got)), finding=fid)
        return ref, sref
    finally:
        kinds.cleanup()


def decoding(ctx, variant):
    rng = ctx.rng
    kinds = Kinds(os.path.join(core.WORK, 'c11_%d' % os.getpid()), rng)
    try:
        targets = [BUF * k + d for k in (1, 2, 3) for d in (-3, -1, 0, 1, 2)] + [10, 300, BUF // 2, 4 * BUF + 9]
        n = ctx.n(60, 700)
        for i in range(n):
            target = targets[i % len(targets)] if rng.random() < 0.8 else rng.randrange(2, 4 * BUF)
            shape, spec, v, schemaless = make_value(rng, target)
            encname, dec, enc = ENCODINGS[i % len(ENCODINGS)] if rng.random() < 0.7 else rng.choice(ENCODINGS)
            try:
                b = fit(rng, spec, v, enc, target)
            except error.PyAsn1Error:
                ctx.stats['dec_encoder_refused'] += 1
                continue
            if len(b) > 45000:
                b = enc(make_value(rng, BUF + 1)[2]) if False else b[:0]
            if not b:
                continue
            ctx.stats['dec_shape_' + shape] += 1
            use_spec = spec if (not schemaless or rng.random() < 0.6) else None
            compare_kinds(ctx, kinds, shape, encname, dec, use_spec, b, variant)
            r = rng.random()
            if r < 0.35:      # several encodings one after another
                parts = [b]
                for _ in range(rng.randrange(1, 4)):
                    s2, sp2, v2, _ = make_value(rng, rng.choice([5, 200, BUF // 3, BUF + 1]))
                    if type(sp2) is type(spec) and (use_spec is None or shape in ('wide', 'single', 'doc', 'envelope', 'setof')):
                        try: parts.append(enc(v2))
                        except error.PyAsn1Error: pass
                if len(parts) == 1:
                    parts.append(b[:min(len(b), 3 * BUF)] if len(b) < 2 * BUF else enc(univ.OctetString(b'zz')) if use_spec is None else b[:0])
                cat = b''.join(parts)
                if len(cat) <= 60000 and len(cat) > len(b):
                    compare_kinds(ctx, kinds, shape + '+concatenated', encname, dec, use_spec, cat, variant)
            elif r < 0.85:    # invalid / truncated
                how, bad = mutate(rng, b)
                if bad:
                    compare_kinds(ctx, kinds, shape + '+' + how, encname, dec, use_spec, bad, variant)
        ctx.sample({'decode': 'kinds %s; stream-only kinds %s' % (Kinds.NAMES, Kinds.STREAM_ONLY)})
    finally:
        kinds.close()


# ------------------------------------------------------------------------------------------------

def run(ctx):
    variant = impl_variant()
    ctx.stats['implementation_is_variant_' + variant] += 1
    ctx.notes.append('CachingStreamWrapper under test behaves as model variant %s on the witness of C11_refuted_renumber_old '
                     '(Cur = numbering restarts after a cache drop, finding F06; Fix = fixes/F06.diff)' % variant)
    ctx.rule = ('(a) call histories on the real CachingStreamWrapper over a raw non-seekable reader vs io.BytesIO over the same octets: '
                'the F06 witness, every word of length <= 4 over {read 1, read BUF+1, peek 3, seek -1, mark:=tell, tell, seek mark, get mark}, '
                'random histories of 1..60 (thorough 120) calls on 0..40000 octets with sizes and read lengths straddling io.DEFAULT_BUFFER_SIZE '
                '(20% deliberately not permitted: model correspondence only); non-trivial = the cache is dropped during the history. '
                '(b) BER (definite, indefinite, chunked), CER and DER encodings of wide / deep / mixed SEQUENCE, SEQUENCE OF, SET OF, ANY '
                'envelopes and single OCTET STRINGs with total sizes k*BUF-3..k*BUF+2 (k=1,2,3) and others, their concatenations, truncations '
                'and corruptions, decoded from bytes, BytesIO, OctetString, Any, a file, gzip and zip readers, a non-seekable reader '
                '(decode() and StreamingDecoder) and from short-reading and non-blocking non-seekable readers (StreamingDecoder only, '
                'underrun notifications skipped); non-trivial = input longer than the buffer')
    histories(ctx, variant)
    decoding(ctx, variant)


def replay(data):
    case = data.get('case', data)
    print('implementation variant now:', impl_variant())
    if case.get('kind') == 'history':
        b = _unpack(case['data_hex_gz'])
        ops = [tuple(o) for o in case['ops']]
        wo = run_wrapper(streaming.CachingStreamWrapper(RawNS(b)), ops)
        so = run_bytesio(io.BytesIO(b), ops)
        bad = 0
        for i, o in enumerate(ops):
            differs = wo[i] != so[i]
            bad += differs
            print('%3d %-22s wrapper=%-40s bytesio=%-40s %s' % (i, o, show_outs([wo[i]])[0], show_outs([so[i]])[0], '<-- differs' if differs else ''))
        for variant in ('Cur', 'Fix'):
            print('model %s:' % variant, core.coq_show(IMPORTS, 'outputs (run (wstep %s (N.to_nat default_buffer_size)) (w_init %s) %s)'
                                                      % (variant, coqio.cbytes(b), coq_ops(ops)))[:1500])
        return 1 if bad and case.get('permitted') else 0
    if case.get('kind') == 'decode':
        import random
        b = _unpack(case['input_hex_gz'])
        decs = {n: d for n, d, _ in ENCODINGS}
        dec = decs[case['encoding']]
        spec = {'Doc': Doc, 'Envelope': Envelope, 'OctetString': univ.OctetString, 'NoneType': None}.get(case['spec'] or 'NoneType')
        if case['spec'] == 'SequenceOf':
            depth = 0
            # the nesting depth is recovered from the input: count leading constructed SEQUENCE headers
            v, _ = ber_dec.decode(b[:0] or b) if False else (None, None)
        if case['spec'] in ('SequenceOf', 'SetOf'):
            print('note: schema of class %s is rebuilt without nesting information; replaying schemaless' % case['spec'])
            spec = None
        else:
            spec = spec() if spec else None
        kinds = Kinds(os.path.join(core.WORK, 'c11_replay_%d' % os.getpid()), random.Random(0))
        kinds.prepare(b)
        kinds.short_limits = case.get('short_limits', kinds.short_limits)
        kinds.nb_pattern = case.get('nb_pattern', kinds.nb_pattern)
        bad = 0
        try:
            for api, names, fn in (('decode', Kinds.NAMES, decode_outcome),
                                   ('StreamingDecoder', Kinds.NAMES + Kinds.STREAM_ONLY, stream_outcome)):
                ref = None
                for kind in names:
                    got = fn(dec, kinds, kind, spec)
                    if ref is None:
                        ref = got
                    print('%-17s %-26s %s %s' % (api, kind, json.dumps(_hide(got), default=repr)[:300], '' if got[:3] == ref[:3] else '<-- differs'))
                    bad += got[:3] != ref[:3]
        finally:
            kinds.cleanup(); kinds.close()
        return 1 if bad else 0
    print(json.dumps(data, indent=1)[:4000])
    return 0

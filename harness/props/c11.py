"""C11 - decoding result does not depend on the kind of input object.

(a) operation histories on the real pyasn1.codec.streaming.CachingStreamWrapper (over a raw
    non-seekable reader) against a real io.BytesIO over the same octets: property on the
    implementation (outputs equal op by op, for permitted histories) and correspondence with the Coq
    model (Model/Wrapper.v: `wstep` for the wrapper, `sstep` for BytesIO), permitted or not;
(b) the same octets decoded through every substrate kind, values / remainders / errors compared.

The wrapper exists in two modelled variants (Cur = as in the repository, Fix = fixes/F06.diff).
Which one the implementation under test is, is decided by replaying the three-call witness of
theorem C11_refuted_renumber_old on the real class; the correspondence then uses that variant.
The *property* is always judged on the implementation's own outputs."""
import io, os, sys, gzip, zipfile, shutil, itertools, json
from harness import core, coqio
from pyasn1 import error
from pyasn1.type import univ, namedtype, base, tag
from pyasn1.codec import streaming
from pyasn1.codec.ber import encoder as ber_enc, decoder as ber_dec
from pyasn1.codec.cer import encoder as cer_enc, decoder as cer_dec
from pyasn1.codec.der import encoder as der_enc, decoder as der_dec

BUF = io.DEFAULT_BUFFER_SIZE
IMPORTS = 'Base.Bytes Model.Wrapper Gen.Tables'


# ------------------------------------------------------------------------------------------------
# raw streams

class RawNS(object):
    """blocking non-seekable reader: read(n) delivers min(n, what is left)"""
    def __init__(self, b):
        self._b, self._p, self.nones, self.calls = bytes(b), 0, 0, 0

    def seekable(self):
        return False

    def exhausted(self):
        return self._p >= len(self._b)

    def _take(self, n):
        r = self._b[self._p:self._p + n]
        self._p += len(r)
        return r

    def read(self, n=-1):
        self.calls += 1
        if n is None or n < 0:
            n = len(self._b) - self._p
        return self._take(n)


class RawPackets(RawNS):
    """non-seekable reader whose data arrives in packets: a read never crosses the end of the
    packet it starts in (short reads).  With `nonepat`, call k answers None ("no data yet",
    non-blocking stream) when nonepat[k % len] is set and data is still to come."""
    def __init__(self, b, bounds, nonepat=None):
        RawNS.__init__(self, b)
        self._bounds, self._nonepat = bounds, nonepat

    def read(self, n=-1):
        self.calls += 1
        if self.exhausted():
            return b''
        if self._nonepat and self._nonepat[self.calls % len(self._nonepat)] and n:
            self.nones += 1
            return None
        end = next(e for e in self._bounds if e > self._p)
        if n is None or n < 0:
            n = end - self._p
        return self._take(min(n, end - self._p))


class SeekPackets(object):
    """the seekable twin of RawPackets: a seekable stream (deliberately not an io.BytesIO) that
    holds everything that has arrived so far and obtains more, packet by packet, exactly when a
    read goes beyond it.  Same delivery schedule, no CachingStreamWrapper involved."""
    def __init__(self, b, bounds, nonepat=None):
        self._src = RawPackets(b, bounds, nonepat)
        self._b, self._p, self._a = bytes(b), 0, 0

    nones = property(lambda self: self._src.nones)

    def seekable(self):
        return True

    def exhausted(self):
        return self._src.exhausted()

    def tell(self):
        return self._p

    def seek(self, n, whence=os.SEEK_SET):
        if whence == os.SEEK_SET:
            if n < 0:
                raise ValueError('negative seek value %d' % n)
            self._p = n
        elif whence == os.SEEK_CUR:
            self._p = max(0, self._p + n)
        else:
            self._p = max(0, self._a + n)
        return self._p

    def read(self, n=-1):
        if n is not None and n > sys.maxsize:       # what every CPython stream does (Py_ssize_t)
            raise OverflowError('Python int too large to convert to C ssize_t')
        have = self._b[self._p:self._a] if n is None or n < 0 else self._b[self._p:min(self._p + n, self._a)]
        self._p += len(have)
        if n is not None and n >= 0:
            n -= len(have)
            if not n:
                return have
        more = self._src.read(n)
        if more is None:
            return have or None
        self._a += len(more)
        self._p += len(more)
        return have + more


class AbsPosWrapper(streaming.CachingStreamWrapper):
    """reference repair of finding F06 (same change as fixes/F06.diff, done from outside):
    used only to *classify* a failing input - does it stop failing once positions stay absolute?"""
    def __init__(self, raw):
        streaming.CachingStreamWrapper.__init__(self, raw)
        self._c11_off = 0

    def seek(self, n=-1, whence=os.SEEK_SET):
        if whence == os.SEEK_SET:
            n -= self._c11_off
        return self._c11_off + self._cache.seek(n, whence)

    def tell(self):
        return self._c11_off + self._cache.tell()

    @property
    def markedPosition(self):
        return self._markedPosition

    @markedPosition.setter
    def markedPosition(self, value):
        self._markedPosition = value
        p = self._cache.tell()
        if p > BUF:
            self._cache = io.BytesIO(self._cache.read())
            self._c11_off += p


def impl_variant():
    """replay C11_refuted_renumber_old's history on the real class"""
    w = streaming.CachingStreamWrapper(RawNS(b'\x07' * (BUF + 2)))
    w.read(BUF + 1)
    w.markedPosition = w.tell()
    t, m = w.tell(), w.markedPosition
    if (t, m) == (BUF + 1, BUF + 1):
        return 'Fix'
    if (t, m) == (0, 0):
        return 'Cur'
    return 'other:%r' % ((t, m),)


def impl_f05_fixed():
    """does read() survive a None from the raw stream (fixes/F05.diff) or raise TypeError?"""
    w = streaming.CachingStreamWrapper(RawPackets(b'abc', [3], [True]))
    try:
        return w.read(2) is None
    except TypeError:
        return False


# ------------------------------------------------------------------------------------------------
# (a) operation histories

def seg_data(rng, size):
    """octets made of long runs with a few literal octets in between (cheap as a Coq literal,
    still position sensitive: run lengths are irregular and values differ between neighbours)"""
    out = bytearray()
    v = rng.randrange(256)
    while len(out) < size:
        if rng.random() < 0.2:
            out += bytes(rng.randrange(256) for _ in range(rng.randrange(1, 6)))
        else:
            v = (v + rng.randrange(1, 255)) % 256
            out += bytes([v]) * rng.choice([16, 17, 40, 100, 333, 1000, 2048, 4095])
    return bytes(out[:size])


SIZES = [0, 1, 5, 100, BUF - 1, BUF, BUF + 1, BUF + 2, 2 * BUF - 1, 2 * BUF, 2 * BUF + 1, 3 * BUF + 7, 4 * BUF + 100]
READS = [0, 1, 1, 2, 2, 3, 5, 17, 100, 1000, BUF - 1, BUF, BUF + 1, BUF + 2, 2 * BUF + 3]


def gen_history(rng, size, nops, wild):
    """ops as tuples; generated against the abstract state (pos, mark) so that, unless `wild`,
    the history is permitted: marks at tell(), seeks back to >= mark only"""
    pos, mark, ops = 0, 0, []
    for _ in range(nops):
        r = rng.random()
        if r < 0.32:
            n = rng.choice(READS) if rng.random() < 0.8 else rng.randrange(0, 3 * BUF)
            ops.append(('read', n)); pos = min(size, pos + n) if pos <= size else pos
        elif r < 0.42:
            n = rng.choice(READS) if rng.random() < 0.8 else rng.randrange(0, 3 * BUF)
            ops.append(('peek', n))
        elif r < 0.57:
            v = pos
            if wild and rng.random() < 0.3:
                v = rng.randrange(0, pos + 3)
            ops.append(('mark', v)); mark = v
        elif r < 0.69:
            ops.append(('tell',))
        elif r < 0.74:
            ops.append(('getmark',))
        elif r < 0.86:
            lo, hi = (0, pos + 3) if wild and rng.random() < 0.5 else (min(mark, pos), pos)
            p = rng.choice([lo, hi, rng.randint(lo, hi)])
            ops.append(('seek', p)); pos = p
        elif r < 0.98:
            room = pos - mark if pos >= mark else 0
            if wild and rng.random() < 0.5:
                room = pos + 2
            d = rng.choice([0, 1, 1, 2, 2, min(room, 17), room, rng.randint(0, room)])
            d = min(d, room)
            ops.append(('back', d)); pos = max(0, pos - d)
        else:
            ops.append(('readall',)); pos = max(pos, size)
    return ops


ALPHABET = ['r1', 'rB', 'p3', 'b1', 'mk', 'tl', 'sm', 'gm']


def concretise(word, size):
    """a word over the small alphabet -> ops (marks at the current position, seeks to the mark)"""
    pos, mark, ops = 0, 0, []
    for a in word:
        if a == 'r1': ops.append(('read', 1)); pos = min(size, pos + 1)
        elif a == 'rB': ops.append(('read', BUF + 1)); pos = min(size, pos + BUF + 1)
        elif a == 'p3': ops.append(('peek', 3))
        elif a == 'b1': ops.append(('back', 1)); pos = max(0, pos - 1)
        elif a == 'mk': ops.append(('mark', pos)); mark = pos
        elif a == 'tl': ops.append(('tell',))
        elif a == 'sm': ops.append(('seek', mark)); pos = mark
        elif a == 'gm': ops.append(('getmark',))
    return ops


def analyse(data, ops):
    """abstract run in Python: (permitted?, no-drop?, index of the first op after the first drop)"""
    pos, mark, permitted, first_drop = 0, 0, True, None
    n = len(data)
    for i, o in enumerate(ops):
        k = o[0]
        if k == 'read': pos = pos + len(data[pos:pos + o[1]])
        elif k == 'readall': pos = pos + len(data[pos:])
        elif k == 'seek':
            if not (mark <= o[1] <= pos): permitted = False
            pos = o[1]
        elif k == 'back':
            if not (mark + o[1] <= pos): permitted = False
            pos = max(0, pos - o[1])
        elif k == 'mark':
            if o[1] != pos: permitted = False
            if first_drop is None and pos > BUF: first_drop = i
            mark = o[1]
    return permitted, first_drop is None, first_drop


def _guard(f):
    try:
        return f()
    except ValueError:
        return 'ValueError'
    except Exception as e:          # anything else is a crash of the class under test
        return 'crash:' + type(e).__name__


def run_wrapper(w, ops):
    outs = []
    for o in ops:
        k = o[0]
        if k == 'read': outs.append(_guard(lambda: w.read(o[1])))
        elif k == 'readall': outs.append(_guard(lambda: w.read()))
        elif k == 'peek': outs.append(_guard(lambda: w.peek(o[1])))
        elif k == 'seek': outs.append(_guard(lambda: w.seek(o[1], os.SEEK_SET)))
        elif k == 'back': outs.append(_guard(lambda: w.seek(-o[1], os.SEEK_CUR)))
        elif k == 'tell': outs.append(_guard(w.tell))
        elif k == 'mark':
            def setm(): w.markedPosition = o[1]
            outs.append(_guard(setm))
        elif k == 'getmark': outs.append(_guard(lambda: w.markedPosition))
    return outs


def run_bytesio(s, ops, init=True):
    """the same calls on io.BytesIO; peek = read and seek back, as peekIntoStream does it"""
    if init:
        s.markedPosition = 0
    outs = []
    for o in ops:
        k = o[0]
        if k == 'read': outs.append(_guard(lambda: s.read(o[1])))
        elif k == 'readall': outs.append(_guard(lambda: s.read()))
        elif k == 'peek':
            def pk():
                p = s.tell(); r = s.read(o[1]); s.seek(p); return r     # a None answer leaves the position alone
            outs.append(_guard(pk))
        elif k == 'seek': outs.append(_guard(lambda: s.seek(o[1], os.SEEK_SET)))
        elif k == 'back': outs.append(_guard(lambda: s.seek(-o[1], os.SEEK_CUR)))
        elif k == 'tell': outs.append(_guard(s.tell))
        elif k == 'mark':
            def setm(): s.markedPosition = o[1]
            outs.append(_guard(setm))
        elif k == 'getmark': outs.append(_guard(lambda: s.markedPosition))
    return outs


def coq_ops(ops):
    m = {'read': 'rd %d', 'peek': 'pk %d', 'seek': 'sks %d', 'back': 'skb %d', 'mark': 'smk %d'}
    c = {'readall': 'OReadAll', 'tell': 'OTell', 'getmark': 'OGetMark'}
    return coqio.clist([m[o[0]] % o[1] if o[0] in m else c[o[0]] for o in ops])


def coq_outs(outs, ops=None):
    items = []
    for i, x in enumerate(outs):
        if isinstance(x, bytes): items.append('EBytes %s' % coqio.cbytes(x))
        elif x is None: items.append('ENoData' if ops is not None and ops[i][0] in ('read', 'readall', 'peek') else 'ENone')
        elif x == 'crash:TypeError' and ops is not None and ops[i][0] in ('read', 'readall', 'peek'): items.append('ETypeError')
        elif x == 'ValueError': items.append('EErr')
        elif isinstance(x, int) and not isinstance(x, bool) and x >= 0: items.append('ENum %d' % x)
        else: return None           # a crash or an answer outside the model's vocabulary
    return coqio.clist(items)


def show_outs(outs):
    return [('%d octets %s..' % (len(x), x[:8].hex())) if isinstance(x, bytes) and len(x) > 16 else
            (x.hex() if isinstance(x, bytes) else x) for x in outs]


def hist_expr(variant, data, ops, wo, so, permitted, nodrop, split=False):
    """closed Coq boolean(s): wrapper model = wrapper, seekable model = BytesIO, predicates agree"""
    head = 'let d := %s in let o := %s in ' % (coqio.cbytes(data), coq_ops(ops))
    three = ['wrapper_matches %s default_buffer_size d o %s' % (variant, coq_outs(wo)),
             'seekable_matches d o %s' % coq_outs(so),
             'Bool.eqb (permittedb (s_init d) o) %s && Bool.eqb (nodropb (N.to_nat default_buffer_size) (s_init d) o) %s'
             % (coqio.cbool(permitted), coqio.cbool(nodrop))]
    if split:
        return [head + t for t in three]
    return head + ' && '.join('(%s)' % t for t in three)


def histories(ctx, variant):
    rng = ctx.rng
    cases = []      # (label, data, ops)
    # 1. the finding's witness and its neighbours
    for size, ops in [(BUF + 2, [('read', BUF + 1), ('mark', BUF + 1), ('tell',)]),
                      (BUF + 2, [('read', BUF), ('mark', BUF), ('tell',), ('read', 1), ('mark', BUF + 1), ('tell',), ('getmark',)]),
                      (3 * BUF, [('read', BUF + 1), ('mark', BUF + 1), ('read', 5), ('seek', BUF + 1), ('peek', 2 * BUF), ('tell',), ('readall',), ('tell',)])]:
        cases.append(('witness', seg_data(rng, size), ops))
    # 2. every history of length <= 4 over the small alphabet
    d0 = seg_data(rng, 2 * BUF + 5)
    words = [w for n in range(1, 5) for w in itertools.product(ALPHABET, repeat=n)]
    for w in words:
        cases.append(('word', d0, concretise(w, len(d0))))
    # 3. random histories
    for i in range(ctx.n(150, 1500)):
        size = rng.choice(SIZES) if rng.random() < 0.7 else rng.randrange(0, 5 * BUF)
        size = min(size, 40000)
        nops = rng.randrange(1, 61 if ctx.tier != 'thorough' else 121)
        wild = rng.random() < 0.2
        cases.append(('wild' if wild else 'random', seg_data(rng, size), gen_history(rng, size, nops, wild)))

    exprs, meta = [], []
    nword_coq = ctx.n(150, len(words))
    word_pick = set(rng.sample(range(len(words)), min(nword_coq, len(words))))
    wi = -1
    for label, data, ops in cases:
        if label == 'word': wi += 1
        permitted, nodrop, first_drop = analyse(data, ops)
        raw = RawNS(data)
        wo = run_wrapper(streaming.CachingStreamWrapper(raw), ops)
        so = run_bytesio(io.BytesIO(data), ops)
        ctx.case((label, data, tuple(ops)), not nodrop)
        ctx.stats['hist_' + label] += 1
        ctx.stats['hist_permitted' if permitted else 'hist_not_permitted'] += 1
        ctx.stats['hist_with_cache_drop' if not nodrop else 'hist_without_cache_drop'] += 1
        ctx.stats['hist_ops'] += len(ops)
        case = {'kind': 'history', 'label': label, 'data_hex_gz': _pack(data), 'size': len(data), 'ops': [list(o) for o in ops],
                'permitted': permitted, 'cache_drop_at_op': first_drop, 'variant': variant}
        # property on the implementation: same answers as a seekable stream, for permitted histories
        if permitted and wo != so:
            k = next(i for i in range(len(ops)) if wo[i] != so[i])
            fid = 'F06' if (first_drop is not None and k > first_drop) else None
            ctx.prop_fail('CachingStreamWrapper answers differently from io.BytesIO over the same octets%s'
                          % (' after the cache was dropped (positions renumbered)' if fid else ''),
                          dict(case, first_difference={'op_index': k, 'op': list(ops[k]), 'wrapper': show_outs([wo[k]])[0],
                                                       'bytesio': show_outs([so[k]])[0]}), finding=fid)
        if any(isinstance(x, str) and x.startswith('crash:') for x in wo):
            ctx.prop_fail('CachingStreamWrapper raised %s' % [x for x in wo if isinstance(x, str)][0], case)
        # correspondence
        if getattr(ctx, 'search_only', False):
            continue
        if label == 'word' and wi not in word_pick:
            continue
        if variant not in ('Cur', 'Fix'):
            continue
        cw, cs = coq_outs(wo), coq_outs(so)
        if cw is None or cs is None:
            ctx.stats['hist_outside_model_vocabulary'] += 1
            continue
        exprs.append(hist_expr(variant, data, ops, wo, so, permitted, nodrop))
        meta.append(case)
    if exprs:
        exprs.append('N.eqb default_buffer_size %d' % BUF)
        meta.append({'kind': 'const', 'what': 'Gen.Tables.default_buffer_size differs from io.DEFAULT_BUFFER_SIZE'})
        bad = core.coq_bools('c11', IMPORTS, exprs, shard=max(10, min(80, len(exprs) // (2 * core.NPROC) + 1)))
        ctx.stats['hist_model_evaluations'] += len(exprs)
        # which of the three comparisons of a disagreeing case failed
        parts, pmeta = [], []
        for i in bad:
            case = meta[i]
            if case.get('kind') == 'const':
                ctx.corr_fail(case['what'], case)
                continue
            data, ops = _unpack(case['data_hex_gz']), [tuple(o) for o in case['ops']]
            wo = run_wrapper(streaming.CachingStreamWrapper(RawNS(data)), ops)
            so = run_bytesio(io.BytesIO(data), ops)
            three = hist_expr(variant, data, ops, wo, so, case['permitted'], case['cache_drop_at_op'] is None, split=True)
            parts += three
            pmeta += [('wrapper model (variant %s) and CachingStreamWrapper disagree' % variant, case),
                      ('seekable-stream model and io.BytesIO disagree', case),
                      ('permitted / no-drop predicates of the model and of the harness disagree', case)]
        for j in core.coq_bools('c11d', IMPORTS, parts, shard=30):
            ctx.corr_fail(pmeta[j][0], pmeta[j][1])
    ctx.sample({'history': cases[0][2], 'size': len(cases[0][1])})
    ctx.sample({'history': cases[-1][2][:12], 'size': len(cases[-1][1])})


def gen_packet_history(rng, data, bounds, nonepat, nops, wild):
    """permitted history generated while running the seekable twin (positions depend on what
    the source delivers); returns (ops, twin outputs, permitted?, first dropping mark or None)"""
    twin = SeekPackets(data, bounds, nonepat)
    twin.markedPosition = 0
    ops, permitted, first_drop, off = [], True, None, 0
    for i in range(nops):
        pos, mark = twin.tell(), twin.markedPosition
        r = rng.random()
        if r < 0.4:
            o = ('read', rng.choice(READS) if rng.random() < 0.8 else rng.randrange(0, 2 * BUF))
        elif r < 0.5:
            o = ('peek', rng.choice(READS))
        elif r < 0.65:
            v = pos if not (wild and rng.random() < 0.3) else rng.randrange(0, pos + 3)
            o = ('mark', v)
            permitted &= v == pos
            if first_drop is None and pos > BUF:
                first_drop = i
        elif r < 0.75:
            o = ('tell',)
        elif r < 0.8:
            o = ('getmark',)
        elif r < 0.9:
            lo, hi = (0, pos + 2) if wild and rng.random() < 0.5 else (min(mark, pos), pos)
            o = ('seek', rng.choice([lo, hi, rng.randint(lo, hi)]))
            permitted &= mark <= o[1] <= pos
        elif r < 0.98:
            room = max(0, pos - mark) if not (wild and rng.random() < 0.5) else pos + 2
            o = ('back', min(room, rng.choice([0, 1, 2, 17, room])))
            permitted &= mark + o[1] <= pos
        else:
            o = ('readall',)
        ops.append(o)
        run_bytesio_step(twin, o)
    return ops, permitted, first_drop


def run_bytesio_step(s, o):
    return run_bytesio(s, [o], init=False)[0]


def packet_histories(ctx, variant, f05):
    """the wrapper over a raw stream that delivers in packets and answers None now and then,
    against the seekable twin with the same delivery schedule (theorem C11_wrapper_refines_any_raw)"""
    rng = ctx.rng
    exprs, meta = [], []
    for i in range(ctx.n(80, 1000)):
        size = min(rng.choice(SIZES) if rng.random() < 0.7 else rng.randrange(0, 4 * BUF), 35000)
        data = seg_data(rng, size)
        pool = [1, 2, 3, 7, 64, 500, 1000, 3000, BUF - 1, BUF, BUF + 1, 2 * BUF + 5]
        cyc = [rng.choice(pool) for _ in range(rng.randrange(1, 5))]
        if size > 3000 and max(cyc) < 64:
            cyc.append(1000)
        bounds, sizes, e, k = [], [], 0, 0
        while e < size:
            sizes.append(cyc[k % len(cyc)]); e = min(size, e + sizes[-1]); bounds.append(e); k += 1
        nonepat = [rng.random() < 0.35 for _ in range(rng.randrange(1, 7))] if rng.random() < 0.7 else [False]
        nops = rng.randrange(1, 61 if ctx.tier != 'thorough' else 121)
        wild = rng.random() < 0.15
        ops, permitted, first_drop = gen_packet_history(rng, data, bounds, nonepat, nops, wild)
        so = run_bytesio(SeekPackets(data, bounds, nonepat), ops)
        raw = RawPackets(data, bounds, nonepat)
        wo = run_wrapper(streaming.CachingStreamWrapper(raw), ops)
        ctx.case(('packets', data, tuple(ops), tuple(sizes), tuple(nonepat)), first_drop is not None or raw.nones > 0)
        ctx.stats['pkt_histories'] += 1
        ctx.stats['pkt_permitted' if permitted else 'pkt_not_permitted'] += 1
        ctx.stats['pkt_with_cache_drop'] += first_drop is not None
        ctx.stats['pkt_with_none_answers'] += raw.nones > 0
        ctx.stats['pkt_ops'] += len(ops)
        case = {'kind': 'packet-history', 'data_hex_gz': _pack(data), 'size': size, 'packet_sizes': sizes[:50], 'packet_cycle': cyc,
                'none_pattern': nonepat, 'ops': [list(o) for o in ops], 'permitted': permitted, 'cache_drop_at_op': first_drop,
                'variant': variant, 'f05_fixed': f05}
        if permitted and wo != so:
            k = next(j for j in range(len(ops)) if wo[j] != so[j])
            fid = None
            if wo[k] == 'crash:TypeError' and raw.nones > 0:
                fid = 'F05'
            elif first_drop is not None and k > first_drop:
                fid = 'F06'
            elif any(x == 'crash:TypeError' for x in wo[:k]):
                fid = 'F05'          # aftermath of the failed read: the cache position had already moved
            ctx.prop_fail('CachingStreamWrapper over a raw stream with short reads / None answers differs from a seekable stream '
                          'with the same delivery schedule%s' % {'F05': ' (None from raw.read -> TypeError)',
                                                                  'F06': ' (after the cache was dropped)', None: ''}[fid],
                          dict(case, first_difference={'op_index': k, 'op': list(ops[k]), 'wrapper': show_outs([wo[k]])[0],
                                                       'twin': show_outs([so[k]])[0]}), finding=fid)
        if getattr(ctx, 'search_only', False) or variant not in ('Cur', 'Fix'):
            continue
        cw, cs = coq_outs(wo, ops), coq_outs(so, ops)
        if cw is None or cs is None:
            ctx.stats['pkt_outside_model_vocabulary'] += 1
            continue
        flags = [nonepat[j % len(nonepat)] for j in range(1, len(ops) + 3)]
        exprs.append('let r := mkPraw (cut %s %s) %s in let o := %s in '
                     '(gwrapper_matches %s %s default_buffer_size r o %s) && (fseekable_matches r o %s) '
                     '&& Bool.eqb (gpermittedb pread (f_init r) o) %s'
                     % (coqio.clist(['%d' % x for x in sizes]), coqio.cbytes(data), coqio.clist([coqio.cbool(x) for x in flags]),
                        coq_ops(ops), coqio.cbool(f05), variant, cw, cs, coqio.cbool(permitted)))
        meta.append(case)
    if exprs:
        for i in core.coq_bools('c11p', IMPORTS, exprs, shard=max(5, min(60, len(exprs) // (2 * core.NPROC) + 1))):
            ctx.corr_fail('any-raw wrapper model (variant %s, F05 %s) / seekable reference model disagree with CachingStreamWrapper / '
                          'the harness twin' % (variant, 'fixed' if f05 else 'unfixed'), meta[i])
        ctx.stats['pkt_model_evaluations'] += len(exprs)


def _pack(b):
    import zlib, base64
    return base64.b64encode(zlib.compress(bytes(b), 9)).decode()


def _unpack(s):
    import zlib, base64
    return zlib.decompress(base64.b64decode(s))


# ------------------------------------------------------------------------------------------------
# (b) the same octets through every substrate kind

def absval(v):
    """structure of a decoded value without prettyPrint / __eq__ of pyasn1"""
    if v is None:
        return None
    if isinstance(v, bytes):
        return ('rawbytes', v)
    if isinstance(v, error.PyAsn1Error):
        return ('exc', type(v).__name__)
    cls = type(v).__name__
    try:
        tags = tuple((int(t.tagClass), int(t.tagFormat), int(t.tagId)) for t in v.tagSet.superTags)
    except Exception:
        tags = None
    if isinstance(v, univ.Choice):
        try:
            return (cls, tags, v.getName(), absval(v.getComponent()))
        except Exception as e:
            return (cls, tags, 'unset')
    if isinstance(v, (univ.SequenceOf, univ.SetOf, univ.Sequence, univ.Set)):
        comps = []
        for i in range(len(v)):
            c = v.getComponentByPosition(i, default=None, instantiate=False)
            comps.append(absval(c) if c is not None and getattr(c, 'isValue', False) else None)
        return (cls, tags, tuple(comps))
    if not v.isValue:
        return (cls, tags, 'novalue')
    if isinstance(v, univ.OctetString):
        return (cls, tags, v.asOctets())
    if isinstance(v, univ.BitString):
        return (cls, tags, len(v), v.asOctets())
    if isinstance(v, univ.Boolean):
        return (cls, tags, bool(v))
    if isinstance(v, (univ.Integer,)):
        return (cls, tags, int(v))
    if isinstance(v, univ.Null):
        return (cls, tags, 'null')
    if isinstance(v, univ.ObjectIdentifier):
        return (cls, tags, tuple(v))
    return (cls, tags, repr(v))


def _hide(x):
    """absval with long octet strings abbreviated, for reports"""
    if isinstance(x, bytes):
        return x.hex() if len(x) <= 16 else '%d octets %s..' % (len(x), x[:8].hex())
    if isinstance(x, tuple):
        return [_hide(y) for y in x[:12]] + (['.. %d more' % (len(x) - 12)] if len(x) > 12 else [])
    return x


class Kinds(object):
    """factories of substrates presenting the same octets"""
    NAMES = ['bytes', 'BytesIO', 'OctetString', 'Any', 'file', 'gzip', 'zip', 'nonseekable']
    # (kind, the seekable stream it is compared with): same delivery schedule on both sides
    STREAM_ONLY = [('nonseekable-packets', 'seekable-packets'), ('nonseekable-nonblocking', 'seekable-nonblocking')]

    def __init__(self, workdir, rng):
        self.dir, self.rng, self.k = workdir, rng, 0
        os.makedirs(workdir, exist_ok=True)

    def close(self):
        shutil.rmtree(self.dir, ignore_errors=True)

    def prepare(self, b):
        self.k += 1
        self.b = b
        self.path = os.path.join(self.dir, 'in_%d.bin' % self.k)
        with open(self.path, 'wb') as f:
            f.write(b)
        self.gz = self.path + '.gz'
        with gzip.open(self.gz, 'wb', compresslevel=1) as f:
            f.write(b)
        self.zp = self.path + '.zip'
        with zipfile.ZipFile(self.zp, 'w', zipfile.ZIP_DEFLATED) as z:
            z.writestr('member.bin', b)
        pool = [1, 2, 3, 7, 64, 500, 1000, BUF - 1, BUF, BUF + 1] if len(b) < 3000 else [64, 500, 1000, 3000, BUF - 1, BUF, BUF + 1]
        self.packet_sizes = [self.rng.choice(pool) for _ in range(self.rng.randrange(1, 5))]
        if self.rng.random() < 0.3:
            self.packet_sizes.append(self.rng.choice([1, 2, 3, 7]))
        self.none_pattern = [self.rng.random() < 0.4 for _ in range(self.rng.randrange(2, 7))] + [False]
        self.set_schedule(self.packet_sizes, self.none_pattern)

    def set_schedule(self, packet_sizes, none_pattern):
        self.packet_sizes, self.none_pattern = packet_sizes, none_pattern
        self.bounds, e, i = [], 0, 0
        while e < len(self.b):
            e = min(len(self.b), e + packet_sizes[i % len(packet_sizes)]); i += 1
            self.bounds.append(e)

    def cleanup(self):
        for p in (self.path, self.gz, self.zp):
            try: os.remove(p)
            except OSError: pass

    def open(self, kind):
        """-> (substrate, closers, raw) ; raw is the non-seekable reader behind the wrapper, if any"""
        b = self.b
        if kind == 'bytes': return b, [], None
        if kind == 'BytesIO': return io.BytesIO(b), [], None
        if kind == 'OctetString': return univ.OctetString(b), [], None
        if kind == 'Any': return univ.Any(b), [], None
        if kind == 'file':
            f = open(self.path, 'rb'); return f, [f], None
        if kind == 'gzip':
            f = gzip.GzipFile(self.gz, 'rb'); return f, [f], None
        if kind == 'zip':
            z = zipfile.ZipFile(self.zp); f = z.open('member.bin'); return f, [f, z], None
        if kind == 'nonseekable':
            r = RawNS(b); return r, [], r
        if kind == 'nonseekable-packets':
            r = RawPackets(b, self.bounds); return r, [], r
        if kind == 'nonseekable-nonblocking':
            r = RawPackets(b, self.bounds, self.none_pattern); return r, [], r
        if kind == 'seekable-packets':
            r = SeekPackets(b, self.bounds); return r, [], r
        if kind == 'seekable-nonblocking':
            r = SeekPackets(b, self.bounds, self.none_pattern); return r, [], r
        if kind.endswith('/absolute-positions'):          # classification only
            _, _, r = self.open(kind.split('/')[0]); return AbsPosWrapper(r), [], r
        raise KeyError(kind)


def decode_outcome(dec, kinds, kind, spec):
    sub, closers, raw = kinds.open(kind)
    try:
        try:
            v, tail = dec.decode(sub, asn1Spec=spec)
            return ('ok', absval(v), bytes(tail))
        except error.PyAsn1Error as e:
            return ('error', type(e).__name__)
        except Exception as e:
            return ('crash', type(e).__name__)
    finally:
        for c in closers:
            try: c.close()
            except Exception: pass


def stream_outcome(dec, kinds, kind, spec):
    """objects produced by StreamingDecoder; underrun notifications are skipped while the source
    still has data to deliver; once it has none, four more in a row mean "waits for ever" """
    sub, closers, raw = kinds.open(kind)
    objs, waits, total = [], 0, 0
    try:
        try:
            for x in dec.StreamingDecoder(sub, asn1Spec=spec):
                if x is None or isinstance(x, error.SubstrateUnderrunError):
                    total += 1
                    if raw is None or raw.exhausted():
                        waits += 1
                        if waits > 3:
                            return ('waits-for-more', tuple(objs))
                    if total > 100000:
                        return ('no-progress', tuple(objs))
                    continue
                waits = 0
                objs.append(absval(x))
            return ('ok', tuple(objs))
        except error.PyAsn1Error as e:
            return ('error', type(e).__name__, tuple(objs))
        except Exception as e:
            return ('crash', type(e).__name__, tuple(objs), raw.nones if raw is not None else 0)
    finally:
        for c in closers:
            try: c.close()
            except Exception: pass


# ---- inputs

def octs(rng, n):
    return bytes([rng.randrange(256)]) * n if n > 24 else bytes(rng.randrange(256) for _ in range(n))


class Rec(univ.Sequence):
    componentType = namedtype.NamedTypes(
        namedtype.NamedType('x', univ.Integer()),
        namedtype.NamedType('y', univ.OctetString()),
        namedtype.OptionalNamedType('z', univ.Boolean()))


class RecList(univ.SequenceOf):
    componentType = Rec()


class Doc(univ.Sequence):
    componentType = namedtype.NamedTypes(
        namedtype.NamedType('a', univ.Integer()),
        namedtype.NamedType('b', RecList()),
        namedtype.NamedType('c', univ.OctetString()),
        namedtype.OptionalNamedType('d', univ.SetOf(componentType=univ.Integer())),
        namedtype.OptionalNamedType('e', univ.OctetString().subtype(explicitTag=tag.Tag(tag.tagClassContext, tag.tagFormatConstructed, 1))))


class Envelope(univ.Sequence):
    componentType = namedtype.NamedTypes(
        namedtype.NamedType('id', univ.ObjectIdentifier()),
        namedtype.NamedType('val', univ.Any()),
        namedtype.OptionalNamedType('tail', univ.OctetString()))


def nested_spec(depth):
    t = univ.OctetString()
    for _ in range(depth):
        t = univ.SequenceOf(componentType=t)
    return t


def spec_of(desc):
    """schema from its descriptor (stored in replay files)"""
    if desc is None: return None
    k = desc[0]
    if k == 'wide': return univ.SequenceOf(componentType=univ.OctetString())
    if k == 'doc': return Doc()
    if k == 'deep': return nested_spec(desc[1])
    if k == 'single': return univ.OctetString()
    if k == 'envelope': return Envelope()
    if k == 'setof': return univ.SetOf(componentType=univ.Integer())
    raise KeyError(desc)


SHAPES = ['wide', 'wide', 'doc', 'doc', 'deep', 'single', 'envelope', 'envelope', 'setof']


def make_value(rng, target, desc=None):
    """(spec descriptor, value, schemaless_ok) with an encoding of roughly `target` octets"""
    if desc is None:
        shape = rng.choice(SHAPES)
        desc = ('deep', rng.randrange(2, 24)) if shape == 'deep' else (shape,)
    shape, spec = desc[0], spec_of(desc)
    v = spec.clone()
    if shape == 'wide':
        el = rng.choice([1, 10, 100, 500, 1000, 3000])
        n = max(1, min(target // (el + 3), 300))
        for _ in range(n):
            v.append(octs(rng, el))
        if target > n * (el + 4):
            v.append(octs(rng, target - n * (el + 4)))
        return desc, v, True
    if shape == 'doc':
        v['a'] = rng.randrange(-2 ** 40, 2 ** 40)
        n = rng.choice([0, 1, 5, 40, 150])
        per = max(0, min(3000, (target * 2 // 3) // max(n, 1) - 12))
        for i in range(n):
            r = Rec()
            r['x'] = i
            r['y'] = octs(rng, rng.choice([per, per, 0, 1]))
            if rng.random() < 0.5:
                r['z'] = rng.random() < 0.5
            v['b'].append(r)
        if not n:
            v['b'].clear()
        used = len(ber_enc.encode(v['b']))
        v['c'] = octs(rng, max(0, target - used - 20))
        if rng.random() < 0.5:
            for _ in range(rng.randrange(1, 20)):
                v['d'].append(rng.randrange(-300, 70000))
        if rng.random() < 0.4:
            v['e'] = octs(rng, rng.choice([0, 3, 300]))
        return desc, v, False
    if shape == 'deep':
        # one chain down to the leaves, with a thin side branch here and there
        width = rng.randrange(1, 6)
        leaf = max(1, target // width - 4)

        def fill(c, d, main):
            if d == 1:
                for _ in range(width if main else 1):
                    c.append(octs(rng, leaf if main else rng.choice([0, 1, 30])))
                return
            sub = c.componentType.clone()
            fill(sub, d - 1, main)
            c.append(sub)
            if main and rng.random() < 0.3:
                side = c.componentType.clone()
                fill(side, d - 1, False)
                c.append(side)
        fill(v, desc[1], True)
        return desc, v, True
    if shape == 'single':
        return desc, univ.OctetString(octs(rng, target)), True
    if shape == 'envelope':
        inner = univ.SequenceOf(componentType=univ.OctetString())
        for _ in range(rng.randrange(1, 30)):
            inner.append(octs(rng, max(1, target // 20)))
        v['id'] = (1, 3, 6, 1, rng.randrange(0, 70000))
        v['val'] = ber_enc.encode(inner, defMode=rng.random() < 0.6)
        if rng.random() < 0.5:
            v['tail'] = octs(rng, rng.choice([0, 5, BUF + 1]))
        return desc, v, False
    for _ in range(min(300, max(1, target // 40))):
        v.append(rng.randrange(-2 ** 64, 2 ** 64))
    return desc, v, True


def fit(v, enc, target):
    """stretch a trailing OCTET STRING so that the encoding has exactly `target` octets, if that is cheap"""
    b = enc(v)
    if not isinstance(v, univ.SequenceOf) or not isinstance(v.componentType, univ.OctetString) or len(b) + 4 > target:
        return b
    for _ in range(4):
        need = target - len(b)
        if need == 0:
            break
        last = v[len(v) - 1].asOctets()
        n = len(last) + need
        if n < 0:
            break
        v[len(v) - 1] = (last[:1] or b'\x00') * n
        b = enc(v)
    return b


ENCODINGS = [
    ('ber-def', ber_dec, lambda v: ber_enc.encode(v)),
    ('ber-indef', ber_dec, lambda v: ber_enc.encode(v, defMode=False)),
    ('ber-indef-chunked', ber_dec, lambda v: ber_enc.encode(v, defMode=False, maxChunkSize=977)),
    ('ber-def-chunked', ber_dec, lambda v: ber_enc.encode(v, maxChunkSize=4000)),
    ('cer', cer_dec, lambda v: cer_enc.encode(v)),
    ('der', der_dec, lambda v: der_enc.encode(v)),
]


def mutate(rng, b):
    """invalid or truncated variants"""
    how = rng.choice(['cut', 'cut', 'cut-near-buf', 'cut-small', 'flip-head', 'flip-any', 'longer-length', 'garbage-tail', 'junk'])
    if how == 'cut' and len(b) > 1:
        return how, b[:rng.randrange(1, len(b))]
    if how == 'cut-near-buf' and len(b) > BUF + 4:
        k = rng.randrange(1, len(b) // BUF + 1) * BUF + rng.randrange(-3, 4)
        return how, b[:max(1, min(len(b) - 1, k))]
    if how == 'cut-small' and len(b) > 1:
        return how, b[:max(1, len(b) - rng.randrange(1, 4))]
    if how == 'flip-head':
        i = rng.randrange(0, min(len(b), 8)); return how, b[:i] + bytes([b[i] ^ (1 << rng.randrange(8))]) + b[i + 1:]
    if how == 'flip-any':
        i = rng.randrange(0, len(b)); return how, b[:i] + bytes([b[i] ^ (1 << rng.randrange(8))]) + b[i + 1:]
    if how == 'longer-length' and len(b) > 4 and b[1] & 0x80 and b[1] != 0x80:
        k = b[1] & 0x7f
        n = int.from_bytes(b[2:2 + k], 'big') + rng.choice([1, 2, 200])
        if n < 256 ** k:
            return how, b[:2] + n.to_bytes(k, 'big') + b[2 + k:]
    if how == 'garbage-tail':
        return how, b + bytes(rng.randrange(256) for _ in range(rng.randrange(1, 9)))
    return 'junk', bytes(rng.randrange(256) for _ in range(rng.randrange(1, 40)))


def has_absurd_length(b):
    """class predicate of finding F22: long-form length octets with a value of 2^32 or more"""
    for i, o in enumerate(b):
        if 0x84 < o < 0xff and int.from_bytes(b[i + 1:i + 1 + (o & 0x7f)], 'big') >= 2 ** 32:
            return True
    return False


def f06_sites(b):
    """Does the known defect F06 have a place to bite in these octets?  The wrapper drops its cache (and
    restarts position numbering) when an item starts more than BUF octets after the cache's origin; that is
    harmful exactly when some enclosing element is being decoded by a loop that holds an absolute start
    position, i.e. a DEFINITE-length constructed element (containers, constructed strings, explicit tags).
    Walks the TLVs the decoder would visit; anything it cannot parse counts as a possible site."""
    origin = 0
    stack = []              # (end offset or None for indefinite, definite?)
    pos, n = 0, len(b)
    try:
        while pos < n:
            while stack and stack[-1][0] is not None and pos >= stack[-1][0]:
                stack.pop()
            if pos - origin > BUF:
                if any(d for _, d in stack):
                    return True
                origin = pos
            start = pos
            first = b[pos]; pos += 1
            if first & 0x1f == 0x1f:
                while b[pos] & 0x80: pos += 1
                pos += 1
            l = b[pos]; pos += 1
            if first == 0 and l == 0:                       # end-of-octets
                while stack and stack[-1][0] is not None: stack.pop()
                if stack: stack.pop()
                continue
            if l == 0x80:
                if not first & 0x20: return True
                stack.append((None, False)); continue
            if l & 0x80:
                k = l & 0x7f
                l = int.from_bytes(b[pos:pos + k], 'big'); pos += k
            if first & 0x20:
                stack.append((pos + l, True))
            else:
                pos += l
        return False
    except IndexError:
        return True


def f06_class(kind, b):
    """finding F06 can only bite where the wrapper is in use, can have dropped its cache, and some decoder
    loop was holding an absolute position across the drop"""
    return kind.startswith('nonseekable') and len(b) > BUF and f06_sites(b)


def compare_kinds(ctx, kinds, label, encname, dec, desc, b, variant):
    kinds.prepare(b)
    spec = spec_of(desc)
    try:
        ref = decode_outcome(dec, kinds, 'bytes', spec)
        sref = stream_outcome(dec, kinds, 'bytes', spec)
        ctx.case(('decode', encname, label, b, desc), len(b) > BUF)
        ctx.stats['dec_inputs'] += 1
        ctx.stats['dec_%s' % encname] += 1
        ctx.stats['dec_size_le_buf' if len(b) <= BUF else 'dec_size_%dxbuf' % min(len(b) // BUF, 4)] += 1
        ctx.stats['dec_outcome_' + ref[0]] += 1
        ctx.stats['dec_stream_outcome_' + sref[0]] += 1
        if abs(len(b) % BUF - BUF // 2) > BUF // 2 - 4 and len(b) >= BUF - 4:
            ctx.stats['dec_size_within_3_of_k_buf'] += 1
        base_case = {'kind': 'decode', 'label': label, 'encoding': encname, 'size': len(b), 'input_hex_gz': _pack(b),
                     'spec': list(desc) if desc else None, 'variant': variant,
                     'packet_sizes': kinds.packet_sizes, 'none_pattern': kinds.none_pattern}
        runs = [('decode', k, 'bytes', decode_outcome, ref) for k in Kinds.NAMES[1:]] + \
               [('StreamingDecoder', k, 'bytes', stream_outcome, sref) for k in Kinds.NAMES[1:]] + \
               [('StreamingDecoder', k, twin, stream_outcome, None) for k, twin in Kinds.STREAM_ONLY] + \
               [('StreamingDecoder', k, 'bytes', stream_outcome, sref) for pair in Kinds.STREAM_ONLY for k in pair if sref[0] == 'ok']    # ... and with the plain octets
        for api, kind, against, fn, refout in runs:
            if refout is None:
                refout = fn(dec, kinds, against, spec)
                ctx.stats['dec_%s_outcome_%s' % (against, refout[0])] += 1
            got = fn(dec, kinds, kind, spec)
            ctx.stats['dec_runs'] += 1
            if got[:3] == refout[:3]:
                continue
            fid = None
            if kind == 'nonseekable-nonblocking' and got[0] == 'crash' and got[1] == 'TypeError' \
                    and isinstance(got[-1], int) and got[-1] > 0:
                fid = 'F05'       # None from the raw stream reached BytesIO.write
            elif {got[:2], refout[:2]} & {('crash', 'MemoryError')} and has_absurd_length(b):     # the OverflowError half was repaired (6fa8558)
                fid = 'F22'       # absurd length handed to read(): substrate kinds differ in how they take it
            elif f06_class(kind, b):
                if fn(dec, kinds, kind + '/absolute-positions', spec)[:3] == refout[:3]:
                    fid = 'F06'   # disappears once positions stay absolute
            ctx.prop_fail('%s gives a different result for the same octets presented as %s than as %s%s' % (
                api, kind, against, {'F06': ' (cache dropped, positions renumbered)', 'F05': ' (None from raw.read)', 'F22': ' (absurd length handed to read())', None: ''}[fid]),
                dict(base_case, api=api, substrate=kind, against=against, from_reference=_hide(refout), from_substrate=_hide(got)), finding=fid)
        return ref, sref
    finally:
        kinds.cleanup()


def decoding(ctx, variant):
    rng = ctx.rng
    kinds = Kinds(os.path.join(core.WORK, 'c11_%d' % os.getpid()), rng)
    try:
        targets = [BUF * k + d for k in (1, 2, 3) for d in (-3, -1, 0, 1, 2)] + [10, 300, BUF // 2, 4 * BUF + 9]
        for i in range(ctx.n(150, 1500)):
            target = targets[i % len(targets)] if rng.random() < 0.8 else rng.randrange(2, 4 * BUF)
            desc, v, schemaless = make_value(rng, target)
            encname, dec, enc = ENCODINGS[i % len(ENCODINGS)] if rng.random() < 0.7 else rng.choice(ENCODINGS)
            try:
                b = fit(v, enc, target)
            except error.PyAsn1Error:
                ctx.stats['dec_encoder_refused'] += 1
                continue
            if not b or len(b) > 45000:
                ctx.stats['dec_skipped_too_long'] += 1
                continue
            ctx.stats['dec_shape_' + desc[0]] += 1
            use = desc if (not schemaless or rng.random() < 0.6) else None
            compare_kinds(ctx, kinds, desc[0], encname, dec, use, b, variant)
            r = rng.random()
            if r < 0.35:      # several encodings one after another
                parts = [b]
                for _ in range(rng.randrange(1, 4)):
                    try:
                        parts.append(enc(make_value(rng, rng.choice([5, 200, BUF // 3, BUF + 1]), desc)[1]))
                    except error.PyAsn1Error:
                        pass
                cat = b''.join(parts)
                if len(parts) > 1 and len(cat) <= 60000:
                    ctx.stats['dec_concatenated'] += 1
                    compare_kinds(ctx, kinds, desc[0] + '+concatenated', encname, dec, use, cat, variant)
            elif r < 0.85:    # invalid / truncated
                how, bad = mutate(rng, b)
                if bad:
                    ctx.stats['dec_mutation_' + how] += 1
                    compare_kinds(ctx, kinds, desc[0] + '+' + how, encname, dec, use, bad, variant)
        ctx.sample({'decode': 'kinds %s; StreamingDecoder-only pairs %s' % (Kinds.NAMES, Kinds.STREAM_ONLY)})
    finally:
        kinds.close()


# ------------------------------------------------------------------------------------------------

def run(ctx):
    variant = impl_variant()
    ctx.stats['implementation_is_variant_' + variant] += 1
    ctx.notes.append('CachingStreamWrapper under test behaves as model variant %s on the witness of C11_refuted_renumber_old '
                     '(Cur = numbering restarts after a cache drop, finding F06; Fix = fixes/F06.diff)' % variant)
    ctx.rule = ('(a) call histories on the real CachingStreamWrapper over a raw non-seekable reader vs io.BytesIO over the same octets: '
                'the F06 witness, every word of length <= 4 over {read 1, read BUF+1, peek 3, seek -1, mark:=tell, tell, seek mark, get mark}, '
                'random histories of 1..60 (thorough 120) calls on 0..40000 octets with sizes and read lengths straddling io.DEFAULT_BUFFER_SIZE '
                '(20% deliberately not permitted: model correspondence only); non-trivial = the cache is dropped during the history. '
                '(a2) histories on the wrapper over a raw reader delivering in packets (cycles of 1..2*BUF+5 octets) and answering None '
                'in random patterns vs a seekable twin with the same delivery schedule, generated adaptively so that they are permitted; '
                'non-trivial = cache drop or None answer. '
                '(b) BER (definite, indefinite, chunked), CER and DER encodings of wide / deep / mixed SEQUENCE, SEQUENCE OF, SET OF, ANY '
                'envelopes and single OCTET STRINGs with total sizes k*BUF-3..k*BUF+2 (k=1,2,3) and others, their concatenations, truncations '
                'and corruptions, decoded from bytes, BytesIO, OctetString, Any, a file, gzip and zip readers, a non-seekable reader '
                '(decode() and StreamingDecoder); plus non-seekable readers whose data arrives in packets (short reads) and which answer None '
                'now and then (non-blocking), each compared through StreamingDecoder (underrun notifications skipped) with a seekable '
                'stream that has the same delivery schedule; non-trivial = input longer than the buffer')
    f05 = impl_f05_fixed()
    ctx.stats['implementation_has_F05_fix_%s' % f05] += 1
    histories(ctx, variant)
    packet_histories(ctx, variant, f05)
    decoding(ctx, variant)


def replay(data):
    case = data.get('case', data)
    print('implementation variant now:', impl_variant())
    if case.get('kind') == 'history':
        b = _unpack(case['data_hex_gz'])
        ops = [tuple(o) for o in case['ops']]
        wo = run_wrapper(streaming.CachingStreamWrapper(RawNS(b)), ops)
        so = run_bytesio(io.BytesIO(b), ops)
        bad = 0
        for i, o in enumerate(ops):
            differs = wo[i] != so[i]
            bad += differs
            print('%3d %-22s wrapper=%-40s bytesio=%-40s %s' % (i, o, show_outs([wo[i]])[0], show_outs([so[i]])[0], '<-- differs' if differs else ''))
        for variant in ('Cur', 'Fix'):
            print('model %s:' % variant, core.coq_show(IMPORTS, 'outputs (run (wstep %s (N.to_nat default_buffer_size)) (w_init %s) %s)'
                                                      % (variant, coqio.cbytes(b), coq_ops(ops)))[:1500])
        return 1 if bad and case.get('permitted') else 0
    if case.get('kind') == 'packet-history':
        b = _unpack(case['data_hex_gz'])
        ops = [tuple(o) for o in case['ops']]
        cyc, bounds, e, k = case['packet_cycle'], [], 0, 0
        while e < len(b):
            e = min(len(b), e + cyc[k % len(cyc)]); bounds.append(e); k += 1
        wo = run_wrapper(streaming.CachingStreamWrapper(RawPackets(b, bounds, case['none_pattern'])), ops)
        so = run_bytesio(SeekPackets(b, bounds, case['none_pattern']), ops)
        bad = 0
        for i, o in enumerate(ops):
            differs = wo[i] != so[i]
            bad += differs
            print('%3d %-22s wrapper=%-40s twin=%-40s %s' % (i, o, show_outs([wo[i]])[0], show_outs([so[i]])[0], '<-- differs' if differs else ''))
        return 1 if bad and case.get('permitted') else 0
    if case.get('kind') == 'decode':
        import random
        b = _unpack(case['input_hex_gz'])
        dec = {n: d for n, d, _ in ENCODINGS}[case['encoding']]
        spec = spec_of(tuple(case['spec']) if case.get('spec') else None)
        kinds = Kinds(os.path.join(core.WORK, 'c11_replay_%d' % os.getpid()), random.Random(0))
        kinds.prepare(b)
        kinds.set_schedule(case.get('packet_sizes', kinds.packet_sizes), case.get('none_pattern', kinds.none_pattern))
        bad = 0
        try:
            runs = [('decode', k, 'bytes', decode_outcome) for k in Kinds.NAMES[1:]] + \
                   [('StreamingDecoder', k, 'bytes', stream_outcome) for k in Kinds.NAMES[1:]] + \
                   [('StreamingDecoder', k, twin, stream_outcome) for k, twin in Kinds.STREAM_ONLY]
            for api, kind, against, fn in runs:
                ref, got = fn(dec, kinds, against, spec), fn(dec, kinds, kind, spec)
                same = got[:3] == ref[:3]
                bad += not same
                print('%-17s %-24s vs %-21s %s' % (api, kind, against, 'same: ' + json.dumps(_hide(got), default=repr)[:120] if same else
                      'DIFFERENT\n     %s: %s\n     %s: %s' % (against, json.dumps(_hide(ref), default=repr)[:600], kind, json.dumps(_hide(got), default=repr)[:600])))
        finally:
            kinds.cleanup(); kinds.close()
        return 1 if bad else 0
    print(json.dumps(data, indent=1)[:4000])
    return 0

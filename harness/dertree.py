"""A tiny DER/BER TLV tree (definite lengths in, any form out) used to rewrite single elements."""


class Node:
    __slots__ = ('first', 'num_octets', 'cons', 'content', 'kids', 'indef')

    def __init__(self, first, num_octets, cons, content=b'', kids=None, indef=False):
        self.first, self.num_octets, self.cons, self.content, self.kids, self.indef = first, num_octets, cons, content, kids, indef

    @property
    def tag(self):
        cls = self.first & 0xC0
        if self.first & 0x1F != 0x1F:
            return (cls, self.first & 0x1F)
        n = 0
        for o in self.num_octets:
            n = (n << 7) | (o & 0x7F)
        return (cls, n)

    def ident(self, cons=None):
        cons = self.cons if cons is None else cons
        f = (self.first & ~0x20) | (0x20 if cons else 0)
        return bytes([f]) + bytes(self.num_octets)

    def ser(self):
        body = b''.join(k.ser() for k in self.kids) if self.cons else self.content
        if self.indef:
            return self.ident() + b'\x80' + body + b'\x00\x00'
        return self.ident() + length_octets(len(body)) + body


def length_octets(n):
    if n < 128:
        return bytes([n])
    b = n.to_bytes((n.bit_length() + 7) // 8, 'big')
    return bytes([0x80 | len(b)]) + b


def parse(data, pos=0):
    """definite-length TLV at pos -> (Node, next position)"""
    first = data[pos]; pos += 1
    num = []
    if first & 0x1F == 0x1F:
        while True:
            o = data[pos]; pos += 1
            num.append(o)
            if not o & 0x80: break
    l = data[pos]; pos += 1
    if l & 0x80:
        k = l & 0x7F
        if k == 0: raise ValueError('indefinite length')
        l = int.from_bytes(data[pos:pos + k], 'big'); pos += k
    body = data[pos:pos + l]
    if len(body) != l: raise ValueError('short')
    cons = bool(first & 0x20)
    if cons:
        kids, p = [], 0
        while p < len(body):
            n, p = parse(body, p)
            kids.append(n)
        return Node(first, num, True, kids=kids), pos + l
    return Node(first, num, False, content=bytes(body)), pos + l

"""An independent reference *generator* of BER(T, v): encodes a value making every choice point of
X.690 at random (length form per element, definite/indefinite per constructed element, segmentation
tree per string, TRUE octet, SET order, DEFAULT presence).  Shares no code with pyasn1."""
from harness.gen import base_desc

UNIV = {'bool': 1, 'int': 2, 'bits': 3, 'octs': 4, 'null': 5, 'oid': 6, 'real': 9, 'enum': 10,
        'seq': 16, 'seqof': 16, 'set': 17, 'setof': 17}


def ident(cls, cons, num):
    lead = cls | (0x20 if cons else 0)
    if num < 31:
        return bytes([lead | num])
    ds = []
    while True:
        ds.insert(0, num & 0x7f); num >>= 7
        if not num: break
    return bytes([lead | 31] + [d | 0x80 for d in ds[:-1]] + [ds[-1]])


def length(r, n):
    """short form, long form, or long form with superfluous leading zero octets"""
    k = r.random()
    if n < 128 and k < 0.5:
        return bytes([n])
    b = n.to_bytes(max(1, (n.bit_length() + 7) // 8), 'big')
    if k > 0.8:
        b = b'\x00' * r.randint(1, 3) + b
    return bytes([0x80 | len(b)]) + b


def tlv(r, cls, cons, num, content, allow_indef=True):
    if cons and allow_indef and r.random() < 0.4:
        return ident(cls, True, num) + b'\x80' + content + b'\x00\x00'
    return ident(cls, cons, num) + length(r, len(content)) + content


def int_content(z):
    n = max(1, (z.bit_length() + 8) // 8) if z >= 0 else max(1, ((~z).bit_length() + 8) // 8)
    return z.to_bytes(n, 'big', signed=True)


def b128(n):
    ds = []
    while True:
        ds.insert(0, n & 0x7f); n >>= 7
        if not n: break
    return bytes([d | 0x80 for d in ds[:-1]] + [ds[-1]])


def segment_octets(r, data, depth=0):
    """a list of OCTET STRING segments (primitive or constructed) whose contents concatenate to data"""
    if len(data) <= 1 or r.random() < 0.4 or depth > 2:
        return tlv(r, 0, False, 4, data)
    k = r.randint(1, min(3, len(data)))
    cuts = sorted(r.sample(range(1, len(data)), k - 1)) if k > 1 else []
    parts = [data[a:b] for a, b in zip([0] + cuts, cuts + [len(data)])]
    if r.random() < 0.3:
        parts.insert(r.randrange(len(parts) + 1), b'')        # an empty segment is allowed
    inner = b''.join(segment_octets(r, p, depth + 1) for p in parts)
    return tlv(r, 0, True, 4, inner)


def string_tlv(r, cls, num, data):
    """primitive, or constructed from OCTET STRING segments (8.7.3, 8.23.6)"""
    if r.random() < 0.5:
        return tlv(r, cls, False, num, data)
    k = r.randint(1, 3)
    cuts = sorted(r.sample(range(1, len(data)), min(k - 1, max(0, len(data) - 1)))) if len(data) > 1 else []
    parts = [data[a:b] for a, b in zip([0] + cuts, cuts + [len(data)])] if data else []
    inner = b''.join(segment_octets(r, p) for p in parts)
    return tlv(r, cls, True, num, inner)


def bits_bytes(bits):
    pad = (8 - len(bits) % 8) % 8
    v = int(''.join(map(str, bits)) + '0' * pad, 2) if bits else 0
    return pad, v.to_bytes((len(bits) + pad) // 8, 'big')


def segment_bits(r, pad, body, depth=0):
    """BIT STRING segments (primitive or constructed, 8.6.4) whose bits concatenate to body less pad
    unused bits; every segment but the last holds a multiple of eight bits, possibly none"""
    if len(body) <= 1 or r.random() < 0.4 or depth > 2:
        return tlv(r, 0, False, 3, bytes([pad]) + body)
    k = r.randint(2, min(4, len(body)))
    cuts = sorted(r.sample(range(1, len(body)), k - 1))
    parts = [body[a:b] for a, b in zip([0] + cuts, cuts + [len(body)])]
    if r.random() < 0.3:
        parts.insert(r.randrange(len(parts)), b'')            # an empty segment, not last
    segs = [segment_bits(r, 0, p, depth + 1) for p in parts[:-1]] + [segment_bits(r, pad, parts[-1], depth + 1)]
    return tlv(r, 0, True, 3, b''.join(segs))


def bitstring_tlv(r, cls, num, bits):
    pad, body = bits_bytes(bits)
    if not bits and r.random() < 0.4:
        # the empty bit string in constructed form: no segments at all, or (nested) empty segments
        k = r.random()
        inner = b'' if k < 0.5 else tlv(r, 0, True, 3, b'') if k < 0.75 else tlv(r, 0, False, 3, b'\x00')
        return tlv(r, cls, True, num, inner)
    if r.random() < 0.5 or len(bits) < 9:
        return tlv(r, cls, False, num, bytes([pad]) + body)
    k = r.randint(1, min(4, len(body)))
    cuts = sorted(r.sample(range(1, len(body)), k - 1)) if k > 1 else []
    parts = [body[a:b] for a, b in zip([0] + cuts, cuts + [len(body)])]
    if r.random() < 0.3:
        parts.insert(r.randrange(len(parts)), b'')
    segs = [segment_bits(r, 0, p) for p in parts[:-1]] + [segment_bits(r, pad, parts[-1])]
    return tlv(r, cls, True, num, b''.join(segs))


def real_content(m, e):
    if m == 0: return b''
    sign = 0x40 if m < 0 else 0
    m = abs(m)
    # any scaling factor 0..3 and base 2: value = m * 2^e = (m') * 2^sf * 2^e'
    while m % 2 == 0:
        m //= 2; e += 1
    eo = int_content(e)
    first = 0x80 | sign
    if len(eo) == 1: head = bytes([first])
    elif len(eo) == 2: head = bytes([first | 1])
    elif len(eo) == 3: head = bytes([first | 2])
    else: head = bytes([first | 3, len(eo)])
    return head + eo + m.to_bytes((m.bit_length() + 7) // 8, 'big')


def outer(T):
    """(class, number) of the outermost tag, None for untagged CHOICE/ANY"""
    if T[0] in ('imp', 'exp'): return (T[1][0], T[1][2])
    if T[0] in ('choice', 'any'): return None
    if T[0] == 'str':
        from harness.universe import STR_TYPES
        return (0, STR_TYPES[T[1]][1])
    return (0, UNIV[T[0]])


def default_equal(ft, fv, dv):
    from harness.codec import default_equal as de
    return de(ft, fv, dv)


def encode(r, T, v, tag=None):
    """one member of BER(T, v); tag = (cls, num) replacing the outermost tag (IMPLICIT above)"""
    k = T[0]
    if k == 'exp':
        cls, num = tag if tag else (T[1][0], T[1][2])
        return tlv(r, cls, True, num, encode(r, T[2], v))
    if k == 'imp':
        return encode(r, T[2], v, tag if tag else (T[1][0], T[1][2]))
    cls, num = tag if tag else (outer(T) or (None, None))
    if k == 'bool':
        return tlv(r, cls, False, num, bytes([r.choice([0xff, 1, 2, 0x80, 0x55]) if v[1] else 0]))
    if k in ('int', 'enum'):
        return tlv(r, cls, False, num, int_content(v[1]))
    if k == 'null':
        return tlv(r, cls, False, num, b'')
    if k == 'oid':
        a = v[1]
        return tlv(r, cls, False, num, b''.join(b128(x) for x in (40 * a[0] + a[1],) + tuple(a[2:])))
    if k == 'real':
        x = v[1]
        if x == 'inf': c = b'\x40'
        elif x == '-inf': c = b'\x41'
        else: c = real_content(x[0], x[2])
        return tlv(r, cls, False, num, c)
    if k == 'bits':
        return bitstring_tlv(r, cls, num, list(v[1]))
    if k == 'octs':
        return string_tlv(r, cls, num, bytes(v[1]))
    if k == 'str':
        from harness.universe import str_encoding
        data = v[1].encode(str_encoding(T)) if v[0] == 'chars' else bytes(v[1])
        return string_tlv(r, cls, num, data)
    if k == 'any':
        return bytes(v[1])
    if k in ('seqof', 'setof'):
        parts = [encode(r, T[1], x) for x in v[1]]
        return tlv(r, cls, True, num, b''.join(parts))
    if k in ('seq', 'set'):
        parts = []
        for (p, ft), fv in zip(T[1], v[1]):
            if fv is None:
                if isinstance(p, tuple) and r.random() < 0.3:
                    parts.append(encode(r, ft, p[1]))       # DEFAULT value may be present (BER)
                continue
            if isinstance(p, tuple) and default_equal(ft, fv, p[1]) and r.random() < 0.5:
                continue                                    # or absent
            parts.append(encode(r, ft, fv))
        if k == 'set':
            r.shuffle(parts)                                # any order
        return tlv(r, cls, True, num, b''.join(parts))
    if k == 'choice':
        return encode(r, T[1][v[1]], v[2])
    raise ValueError(T)


# ---------------------------------------------------------------------------------------------
# the one member of BER(T, v) that is DER (X.690 clause 10, 11): an independent reference in Python

def _dlen(n):
    if n < 128:
        return bytes([n])
    b = n.to_bytes((n.bit_length() + 7) // 8, 'big')
    return bytes([0x80 | len(b)]) + b


def _dtlv(cls, cons, num, content):
    return ident(cls, cons, num) + _dlen(len(content)) + content


def _first_tag(e):
    """(class, number) an encoding starts with"""
    cls, num = e[0] & 0xc0, e[0] & 0x1f
    if num == 31:
        num, i = 0, 1
        while True:
            num = (num << 7) | (e[i] & 0x7f)
            if not e[i] & 0x80: break
            i += 1
    return (cls, num)


def der(T, v, tag=None):
    """the distinguished encoding of v : T.  Raises ValueError where the reference declines (ANY, decimal REAL)."""
    k = T[0]
    if k == 'exp':
        cls, num = tag if tag else (T[1][0], T[1][2])
        return _dtlv(cls, True, num, der(T[2], v))
    if k == 'imp':
        return der(T[2], v, tag if tag else (T[1][0], T[1][2]))
    cls, num = tag if tag else (outer(T) or (None, None))
    if k == 'bool': return _dtlv(cls, False, num, b'\xff' if v[1] else b'\x00')
    if k in ('int', 'enum'): return _dtlv(cls, False, num, int_content(v[1]))
    if k == 'null': return _dtlv(cls, False, num, b'')
    if k == 'oid':
        a = v[1]
        return _dtlv(cls, False, num, b''.join(b128(x) for x in (40 * a[0] + a[1],) + tuple(a[2:])))
    if k == 'real':
        x = v[1]
        if x == 'inf': c = b'\x40'
        elif x == '-inf': c = b'\x41'
        elif x[1] != 2: raise ValueError('decimal REAL')
        else: c = real_content(x[0], x[2])
        return _dtlv(cls, False, num, c)
    if k == 'bits':
        pad, body = bits_bytes(list(v[1]))
        return _dtlv(cls, False, num, bytes([pad]) + body)
    if k == 'octs': return _dtlv(cls, False, num, bytes(v[1]))
    if k == 'str':
        from harness.universe import str_encoding
        return _dtlv(cls, False, num, v[1].encode(str_encoding(T)) if v[0] == 'chars' else bytes(v[1]))
    if k == 'seqof':
        return _dtlv(cls, True, num, b''.join(der(T[1], x) for x in v[1]))
    if k == 'setof':
        parts = [der(T[1], x) for x in v[1]]
        width = max([len(p) for p in parts] or [0])
        return _dtlv(cls, True, num, b''.join(sorted(parts, key=lambda p: p + b'\x00' * (width - len(p)))))
    if k in ('seq', 'set'):
        parts = []
        for (p, ft), fv in zip(T[1], v[1]):
            if fv is None or (isinstance(p, tuple) and default_equal(ft, fv, p[1])):
                continue
            parts.append(der(ft, fv))
        if k == 'set':
            parts.sort(key=_first_tag)
        return _dtlv(cls, True, num, b''.join(parts))
    if k == 'choice':
        return der(T[1][v[1]], v[2])
    raise ValueError(T[0])

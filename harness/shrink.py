"""Greedy shrinking of (type descriptor, value descriptor) pairs while a predicate keeps failing."""
from harness.gen import base_desc


def candidates(T, v):
    k = T[0]
    if k in ('imp', 'exp'):
        yield T[2], v                       # strip the tag
        for T2, v2 in candidates(T[2], v):
            yield (k, T[1], T2), v2
        if T[1][2] > 3:
            yield (k, (T[1][0], T[1][1], 1), T[2]), v
        return
    if k in ('seq', 'set'):
        fs, vs = T[1], v[1]
        for i, ((p, ft), fv) in enumerate(zip(fs, vs)):      # descend into one member
            if fv is not None:
                yield ft, fv
        for i in range(len(fs)):                            # drop a member
            yield (k, fs[:i] + fs[i + 1:]), ('rec', vs[:i] + vs[i + 1:])
        for i, ((p, ft), fv) in enumerate(zip(fs, vs)):
            if fv is not None and p != 'req':
                yield T, ('rec', vs[:i] + [None] + vs[i + 1:])
            if p != 'req' and fv is not None:
                yield (k, fs[:i] + [('req', ft)] + fs[i + 1:]), v
            if fv is not None:
                for ft2, fv2 in candidates(ft, fv):
                    yield (k, fs[:i] + [(p, ft2)] + fs[i + 1:]), ('rec', vs[:i] + [fv2] + vs[i + 1:])
        return
    if k in ('seqof', 'setof'):
        xs = v[1]
        for x in xs:
            yield T[1], x
        for i in range(len(xs)):
            yield T, ('list', xs[:i] + xs[i + 1:])
        if len(xs) == 1:
            for t2, x2 in candidates(T[1], xs[0]):
                yield (k, t2), ('list', [x2])
        return
    if k == 'choice':
        i = v[1]
        yield T[1][i], v[2]
        if len(T[1]) > 1:
            yield ('choice', [T[1][i]]), ('ch', 0, v[2])
        for t2, x2 in candidates(T[1][i], v[2]):
            yield ('choice', T[1][:i] + [t2] + T[1][i + 1:]), ('ch', i, x2)
        return
    # leaves
    if v[0] == 'i' and v[1] not in (0, 1):
        yield T, ('i', 1)
    if v[0] == 'o' and len(v[1]) > 1:
        yield T, (v[0], v[1][:len(v[1]) // 2])
    if v[0] == 'any' and v[1] != b'\x05\x00':
        yield T, ('any', b'\x05\x00')          # stays a complete TLV
    if v[0] == 'chars' and len(v[1]) > 1:
        yield T, ('chars', v[1][:len(v[1]) // 2])
    if v[0] == 'bits' and len(v[1]) > 1:
        yield T, ('bits', v[1][:len(v[1]) // 2])
    if v[0] == 'oid' and len(v[1]) > 2:
        yield T, ('oid', v[1][:2])


def shrink(T, v, fails, budget=150):
    """fails(T, v) -> bool.  Returns a (locally) minimal failing pair."""
    improved = True
    while improved and budget > 0:
        improved = False
        for T2, v2 in candidates(T, v):
            budget -= 1
            if budget <= 0:
                break
            try:
                if fails(T2, v2):
                    T, v, improved = T2, v2, True
                    break
            except Exception:
                continue
    return T, v

"""Writes /verif/MANIFEST.json from the registry below (so it stays valid at all times)."""
import json, os, sys

VERIF = os.path.dirname(os.path.dirname(os.path.abspath(__file__)))
BASELINE = "cd /repo && /venv/bin/python -m pytest -ra -q -p no:cacheprovider --timeout=900 --continue-on-collection-errors"

TB = ("Trusted: Coq 8.16.1 kernel incl. vm_compute (no native_compute, no extraction); axioms as printed by Print Assumptions "
      "(recorded per run in the evidence file); harness/tables.py (reflection translator regenerating coq/Gen/Tables.v from /repo "
      "on every run); the correspondence harness (runs /repo code, canonicalises observables, prints Coq literals; bounded by "
      "generator quality, distribution printed in evidence). Modelled, not verified: CPython built-ins, the generator protocol "
      "(abstracted as resumption of an interaction tree), text codecs, float/strtod, datetime, threads. ")

# pid -> (claimed?, level text, technique, extra note / reason when not claimed)
REG = {
 'C01': (True,
   'Theorem (C01_roundtrip_every_mode_every_type): for every type of the universe (every constructor: simple types, SEQUENCE OF, SET OF, SEQUENCE/SET with mandatory, OPTIONAL and DEFAULT components, CHOICE, ANY, IMPLICIT/EXPLICIT tagging, any depth), every value, every mode of every encoder (definite, indefinite, segmented BER; CER; DER) and every trailing byte string, the BER and CER decoders return a value of the same abstract content and exactly the trailing bytes; the definite-mode statement holds for all three decoders; proved by induction over the type on a Gallina model of the codecs; the model is tied to /repo on every run by regenerated dispatch tables and by differential execution inside Coq (vm_compute) on random (type, value, mode) cases, plus an implementation-level round-trip search with shrinking.',
   'Rocq/Coq proof (induction over the type universe on an interaction-tree model of the decoder) + vm_compute correspondence against /repo',
   'Excluded by the theorem and reported as KNOWN-FINDING: F01 (EXPLICIT tag over a primitive in indefinite mode, pinned by a test). Decimal REAL, float REAL and text-codec validity beyond str_octets_ok are outside the model (counted as model_declines).'),
 'C02': (True,
   'Theorems: the DER encoding of any value of any type of the universe is accepted by the DER, CER and BER decoders with the same abstract content (SET OF as a multiset) (C02_der_accepted_stage3); CER round trip over the whole universe with the CER and BER decoders (C02_cer_roundtrip_stage3); the decoder tables regenerated from /repo refine each other DER <= CER <= BER; fixed encoder modes are table facts. Tied to /repo by differential execution in Coq of the five (encoder, decoder) pairs and an implementation-level search.',
   'Rocq/Coq proof (induction over the type universe + computation over regenerated tables) + vm_compute correspondence against /repo',
   'Excluded by the theorems and reported as KNOWN-FINDING: F01, F24 (both pinned by tests).'),
 'C03': (True,
   "An independent X.690 reference written in Coq from the standard (Spec/X690.v: canonical DER/CER encoders and a TLV-tree reader). Theorems: the DER encoder's output equals the reference byte for byte, in both directions (success and refusal), for simple types under any tags and SEQUENCE/SEQUENCE OF nesting with OPTIONAL/DEFAULT components; the CER encoder's output equals the reference's CER for simple types incl. segmented strings and meets the canonical-form rules; every BER/CER/DER encoder output in every mode is read by the reference reader to the same abstract value. Per input (all types): DER/CER bytes compared with the reference evaluated by vm_compute, BER/CER outputs read back.",
   "Rocq/Coq: independent executable X.690 specification + equivalence proofs (induction over types and digit recursions) + evaluation in the kernel's VM",
   'DER over the whole universe in both directions (C03_der_encoder_is_reference_all); CER in both directions under cer_exact_all (C03_cer_encoder_is_reference_all, C03_cer_refusal_is_reference_all) and cer_canonical for containers, CHOICE and ANY (C03_cer_output_canonical_all). Also per input: DER/CER called with caller-supplied defMode/maxChunkSize give the same octets. Known findings F01, F24 (pinned).'),
 'C05': (True,
   'Theorems: generic schedule independence for any interaction-tree decoder; and unconditionally for the decoder model: every run that consumes an encoding is a clean run (global invariant), hence for every value of the universe (definite mode) and every stage-2 value in indefinite/segmented/CER mode, ANY arrival schedule (any partition, polls, no end-of-stream needed) yields exactly the one-shot object at the end of the encoding. Tied to /repo by all 2^(n-1) partitions of short streams, sampled schedules with polls/short reads/late close on seekable and non-seekable doubles incl. streams longer than one buffer, compared with `drive` evaluated in Coq.',
   'Rocq/Coq proof (simulation + induction over schedules and interaction trees; global cleanliness invariant) + vm_compute correspondence against /repo',
   'The Python generator protocol is abstracted as resumption of a tree; BytesIO subclasses that grow are outside (fast path). Known finding F01.'),
 'C06': (True,
   'Theorems: every consuming run of the item decoder never observes the end of its input (any codec, fuel, guiding type or none); hence every strict prefix of the encoding of any value of the universe (definite mode; indefinite and CER modes for the recursive stage-2 fragment) is, at EVERY cut point, end-of-stream on a closed input and a suspension on an open one; exception lattice facts from regenerated tables. Tied to /repo by every cut point of generated encodings (random types, and one encoding of every base kind plain and EXPLICIT-tagged per codec) in five presentations, with and without guiding type.',
   'Rocq/Coq proof (global invariant over all payload decoders + induction over interaction trees) + vm_compute correspondence against /repo',
   'Stated for decode_with at a fuel covering the whole encoding; for `decode` (fuel from the prefix) a partial version. Known finding F01.'),
 'C07': (True,
   'Theorems: one-shot decoding of e ++ t returns the value of e and t unchanged for every value of the universe (C07_tail_preserved_stage3); a stream of n encodings yields n objects and the position after the i-th is the end of the i-th encoding, one-shot and under any schedule (definite mode whole universe; indefinite mode stage 2); generic exact-consumption theorem. Tied to /repo by encodings x tails (random types, and every base kind under every tagging shape of depth 0..2 in the indefinite modes) and streams of n encodings with positions on seekable and non-seekable doubles and real buffered files.',
   'Rocq/Coq proof (induction over types and interaction trees) + vm_compute correspondence against /repo',
   'Known finding F01 (encoder appends a stray end-of-octets, pinned by a test).'),
 'C11': (True,
   "Coq state-machine model of CachingStreamWrapper and of an abstract seekable stream; refinement theorem for every permitted "
   "operation history (induction on the history) for the repaired wrapper and, excluding the F06 class, for the code as it is; "
   "asSeekableStream normalisation; any client choosing its next call from the answers so far gets the same answers. Tied to /repo by "
   "all histories of length <= 4, random histories and decoding the same bytes through 8 substrate kinds.",
   "Rocq/Coq refinement proof (induction over operation histories) + vm_compute correspondence against /repo",
   "F06 (position renumbering after a cache drop) is pinned by tests/codec/test_streaming.py::testMarkedPositionResets: known finding. "
   "That the decoders are permitted clients and that file/gzip/zip readers behave as the abstract stream is observed, not proved."),
 'C13': (True,
   "Theorems: identifier octets for every class, form and number (unbounded), long form minimal, IMPLICIT/EXPLICIT algebra, the emitted identifiers are the type's tags outermost first; decoding with the own type accepts (whole universe); decoding with a type whose tags differ in class or number at any level, or with more tags, is refused by every decoder (simple types under any tag stack). Tied to /repo by the class x number grid, an accept/reject search, and the tag algebra of the implementation (tagExplicitly/tagImplicitly/subtype over every class incl. UNIVERSAL x number x format) against the model's tag_explicitly/tag_implicitly.",
   'Rocq/Coq proof (induction over base-128/256 digit recursion and tag stacks) + vm_compute correspondence against /repo',
   'Shapes where the encodings coincide (an entered non-universal container vs an EXPLICIT wrapper) are genuinely ambiguous BER (witnesses in Props/C13.v).'),
 'C14': (True,
   "Inductive model of the 12 public constraint classes with a 3-valued evaluator following each _testValue, an independent "
   "set-theoretic denotation, and proofs by nested structural induction that evaluation = denotation at any depth, derived types "
   "admit subsets and are recognised (as repaired), and every value-producing scalar operation checks constraints. Tied to /repo by "
   "random constraint trees with boundary candidates, derivation chains and dunder batteries.",
   "Rocq/Coq proof (nested structural induction over constraint trees) + vm_compute correspondence against /repo",
   "Known findings F14b, F14c, F13 (open). Float REAL arithmetic is outside the model."),
 'C04': (True,
   'Theorem (C04_der_is_a_function_of_the_abstract_value): for every type of the universe, two values with the same abstract content (SET OF order, DEFAULT explicit or omitted, text or octets, REAL representation) have byte-identical DER encodings; on the container model: SET OF order is a function of the multiset, assignment order of positions is immaterial, reads preserve DER, for every reachable state. Tied to /repo by pairs of construction histories reaching the same abstract value (permutations, out-of-order assignment, in-place construction, explicit/implicit and constructed defaults, decode of BER variants, clone, interleaved reads incl. types derived from the value by clone(...)/subtype(...)) compared on DER, CER and BER bytes and with the model.',
   'Rocq/Coq proof (induction over the type; permutation invariance of stable sorts; induction over histories) + vm_compute correspondence against /repo',
   'CER analogue proved except SET OF of constructed members. Known findings F24 (pinned), F18a, F18d.'),
 'C08': (True,
   'Theorems on the decoder model, for EVERY byte string, decoder and guiding type (or none): the outcome is a value object with a strictly shorter remainder or a library error (C08_fails_cleanly); every place where the Python code performs an unguarded partial operation is an explicit crash outcome of the model and none is reachable (C08_never_crashes); the fuel never runs out - every loop iteration consumes input (C08_never_starves, explicit bound). That the model has a crash site wherever the code has one is tied to /repo by all byte strings up to length 2 (3 thorough) over 18 structural octets x 3 decoders x 17 guiding types, contents sweeps per primitive type (all 256 first octets of BIT STRING/OID/REAL, REAL character forms), mutants of valid encodings, outcome class compared with the model evaluated in Coq.',
   'Rocq/Coq proof (invariant over all leaves of the interaction tree by induction on fuel; weakest-precondition calculus with a potential function) + exhaustive/mutation correspondence (vm_compute)',
   'Built-in exceptions of CPython itself (MemoryError: known finding F22) are outside the model. The model declines (EUnmodelled) on decimal REAL and unmodelled text codecs; those inputs are decided on the implementation alone.'),
 'C09': (True,
   'Theorem (C09_all_forms): whatever the independent X.690 reader accepts as an encoding of abstract value a under T (any mix of length forms, definite/indefinite per level, nested segmentation, any non-zero TRUE, SET in any order, DEFAULT/OPTIONAL present or absent) the BER decoder accepts with the same abstract value and remainder, for every type without CHOICE/ANY. Per input: an independent reference generator of BER(T, v) validated in Coq by the reference reader, decoded by implementation and model.',
   'Rocq/Coq proof (equivalence of two independent parsers, induction over the parse tree and the type) + reference-validated differential execution (vm_compute)',
   'Side conditions of the theorem: binary REAL with at least one mantissa octet; ASCII-repertoire strings below 0x80 (library checks repertoire); no UNIVERSAL 0 node inside an ANY.'),
 'C10': (True,
   "Theorems for EVERY byte string, codec and guiding type: a returned value is a complete, well-typed value of exactly the guiding type and the remainder is a suffix of the input (C10_accepted_is_well_formed); the same codec's encoder accepts it (C10_accepted_is_reencodable); the consumed length is what the length octets said. Per input: valid, neighbour-type and mutated encodings - on acceptance independent well-formedness, re-encodability and the decode(encode) fixpoint; constrained types; time and REAL witnesses.",
   'Rocq/Coq proof (invariant of the decoder by induction on fuel, inversion through bind laws) + vm_compute correspondence against /repo',
   'Constraints (value/size) are decided per input. Known findings F01, F24 (pinned), F56 (time types under CER/DER), F58 (REAL exponent beyond 255 octets).'),
 'C12': (True,
   "Coq theorems: encoding leaves abstract content/encoding/comparisons of all three container kinds unchanged; k independent step machines "
   "stepped in any interleaving reach the states they reach alone (induction on the interleaving), instantiated for suspended decoders "
   "(continuation + stream); model functions are deterministic. Harness: snapshots of values/schemas before and after codec calls, aliasing "
   "probes, shared-singleton call histories, interleaved streaming decoders, 8 threads, debug logging on/off, each outcome also compared with the model.",
   "Rocq/Coq proof (product-machine interleaving, reads-inert lemmas) + vm_compute correspondence against /repo",
   "Threads (sampled schedules) and debug logging are exercised by the harness only; object identity/aliasing has no model."),
 'C15': (True,
   'Global theorems: if the DER decoder accepts ANY octet string (with no guiding type, or any guiding type without CHOICE/ANY), what it consumed parses - by the independent X.690 parser - to a tree with no indefinite length, no constructed string or BOOLEAN and only 00/FF in BOOLEANs, at every depth and under any tagging; CER and DER accept only 00/FF wherever a BOOLEAN element is reached; table facts on the tables regenerated from /repo. Tied to /repo by every single non-canonical rewrite of generated DER encodings, a systematic type x tagging x position grid, with and without guiding type, under varied call histories.',
   'Rocq/Coq proof (derivation relation over decoder runs, bridge to an independent parser, computation over regenerated tables) + vm_compute correspondence',
   'CER tree-level theorem excludes types with string components (fragments are collected raw). Observation: constructed BOOLEAN is accepted by CER/DER.'),
 'C16': (True,
   'Theorems: decoding WITHOUT a guiding type returns exactly the wire tags, the same skeleton and leaves, and DER re-encoding of the result reproduces the DER encoding of the original, for self-describing simple types under EXPLICIT tags and SEQUENCE/SEQUENCE OF/SET/SET OF nesting, in every mode of the BER encoder and for the CER encoder, also with absent OPTIONAL components. Per input: DER/BER/CER encodings of the implicit-free sub-universe decoded without schema: value object, byte-identical DER re-encoding, same leaves; model compared in Coq.',
   'Rocq/Coq proof (induction over types and explicit tag stacks) + vm_compute correspondence against /repo',
   'Untagged CHOICE members and DEFAULT components are covered against the pruned type (C16_schemaless_roundtrip_choice_default, _cer, C16_schemaless_der_reencode_choice_default); tagged CHOICE, SET OF of CHOICE and a CHOICE directly inside a SET under CER are decided per input. The DER input of the per-input check is the independent reference DER where the encoder output differs from it. Known finding F01 (pinned).'),
 'C17': (True,
   "Coq model of the native encoder/decoder and of the bare-value branch of the BER/CER/DER encoders; theorems by induction on the type: native "
   "round trip preserves abstract content (ANY included), Python-value encoding equals value-object encoding for every codec/mode incl. absent "
   "OPTIONAL keys; tied to /repo by random values, every subset of OPTIONAL keys, every CHOICE alternative.",
   "Rocq/Coq proof (structural induction over the type universe) + vm_compute correspondence against /repo",
   "REAL other than +-inf/0 goes through Python float: outside the model (compared implementation-to-implementation)."),
 'C18': (True,
   "Coq model of open-type wrapping and of the second decoding pass on top of the codec model; theorems (unconditional since the whole-universe codec round trip is proved; older forms keep it as a premise): raw field = complete inner encoding when resolution is off/unmapped, resolved inner value when on, caller map wins, "
   "for scalar and SET OF/SEQUENCE OF ANY; refutation witnesses for the F01 class. Tied to /repo over INTEGER/OID-keyed maps x taggings x codecs x options.",
   "Rocq/Coq proof (conditional on the staged codec round trip) + vm_compute correspondence against /repo",
   "The codec round trip is no longer a premise (C18_open_resolved_record, C18_open_raw); known findings F01, F24 (pinned)."),
 'C19': (True,
   "Coq models of SequenceOf/SetOf (sparse dict), Sequence/Set (slot list) and Choice objects as step functions, refinement to plain "
   "list/dict/option specs by induction on the history with one lemma per operation; reads inert; ill-formed operations inert; CHOICE "
   "holds at most one alternative (invariant). Tied to /repo by random histories compared after every step with the real objects and a Python prototype.",
   "Rocq/Coq refinement proof (induction over operation histories) + vm_compute correspondence against /repo",
   "Partial where the code violates the statement: known findings F18a, F18d (pinned), F18h, F18i with _refuted witnesses."),
 'C20': (True,
   "Coq model of fromDateTime/asDateTime and of the CER/DER time canonicalisation as coded, an independent X.680 reader, and proofs "
   "(unbounded in every field) that the round trip preserves instant and offset for every whole-minute offset, that non-UTC strings "
   "are refused, and of canonical output outside the recorded finding classes. Tied to /repo by the full grid of the property and "
   "X.680 grammar strings.",
   "Rocq/Coq proof (case analysis + lia over unbounded date fields) + vm_compute correspondence against /repo",
   "Known findings F12 (pinned), F27. strptime/strftime are modelled as field parsing/formatting."),
}
NOT_YET = "check not built yet in this session (build order in DESIGN.md section 9); no claim is made"


def main():
    props = [json.loads(l) for l in open(os.path.join(VERIF, 'properties.jsonl'))]
    checks, na = [], []
    for p in props:
        pid = p['id']
        ent = REG.get(pid)
        if not ent or not ent[0]:
            na.append({'property_id': pid, 'reason': (ent[3] if ent else NOT_YET)})
            continue
        checks.append({
            'property_id': pid,
            'quick_cmd': './check %s --tier quick' % pid,
            'thorough_cmd': './check %s --tier thorough' % pid,
            'evidence_file': '/verif/evidence/%s.json' % pid,
            'replay_cmd_template': './check %s --replay {path}' % pid,
            'engine': 'coq-model+py-harness',
            'level_claimed': {'category': 'proof', 'text': ent[1], 'design_ref': 'DESIGN.md section 5, %s' % pid},
            'level_note': TB + ent[3],
            'technique': ent[2],
        })
    man = {
        'version': 1,
        'setup_cmd': './check --setup',
        'hooks': {'guard': 'PYASN1_VERIF', 'enable': 'environment variable PYASN1_VERIF=1 (set by ./check); no hook commits exist in /repo',
                  'baseline_off_cmd': BASELINE, 'source_commits': [], 'add_only': True},
        'engines': [
            {'name': 'coq-model', 'path': 'coq/', 'serves_properties': [c['property_id'] for c in checks],
             'kind_free_text': 'Gallina model of pyasn1 (Model/), independent specs (Spec/), proofs (Proofs/), property theorems (Props/), tables regenerated from /repo (Gen/)'},
            {'name': 'py-harness', 'path': 'harness/', 'serves_properties': [c['property_id'] for c in checks],
             'kind_free_text': 'case generators, implementation runners, canonicalisers, Coq literal printers, findings classifier, evidence writer'},
            {'name': 'tables-translator', 'path': 'harness/tables.py', 'serves_properties': [c['property_id'] for c in checks],
             'kind_free_text': 'reflection translator: codec TAG_MAP/TYPE_MAP, flags, tags, exception lattice -> coq/Gen/Tables.v, fail-closed'},
        ],
        'checks': checks,
        'notes': 'All checks: ./check <id> --tier quick|thorough. Known findings: known_findings.json. Design: DESIGN.md.',
        'not_applicable': na,
    }
    with open(os.path.join(VERIF, 'MANIFEST.json'), 'w') as f:
        json.dump(man, f, indent=1)
    print('MANIFEST.json: %d checks, %d not claimed' % (len(checks), len(na)))


if __name__ == '__main__':
    main()

"""Writes /verif/MANIFEST.json from the registry below (so it stays valid at all times)."""
import json, os, sys

VERIF = os.path.dirname(os.path.dirname(os.path.abspath(__file__)))
BASELINE = "cd /repo && /venv/bin/python -m pytest -ra -q -p no:cacheprovider --timeout=900 --continue-on-collection-errors"

TB = ("Trusted: Coq 8.16.1 kernel incl. vm_compute (no native_compute, no extraction); axioms as printed by Print Assumptions "
      "(recorded per run in the evidence file); harness/tables.py (reflection translator regenerating coq/Gen/Tables.v from /repo "
      "on every run); the correspondence harness (runs /repo code, canonicalises observables, prints Coq literals; bounded by "
      "generator quality, distribution printed in evidence). Modelled, not verified: CPython built-ins, the generator protocol "
      "(abstracted as resumption of an interaction tree), text codecs, float/strtod, datetime, threads. ")

# pid -> (claimed?, level text, technique, extra note / reason when not claimed)
REG = {
 'C13': (True,
   "Coq theorems over the tag/identifier/length model: identifier octets written by the encoder are read back by the decoder "
   "for every class, form and number (unbounded), long form is minimal, definite lengths of any size round-trip, implicit/explicit "
   "tag algebra; tied to /repo by differential execution of public encode/decode on the class x number grid (model evaluated "
   "inside Coq by vm_compute) and by an implementation-level accept/reject search.",
   "Rocq/Coq proof (induction over base-128/256 digit recursion) + vm_compute correspondence against /repo",
   "Spine/near-miss theorems over the full type universe are added with the codec model (see evidence 'theorems')."),
}
NOT_YET = "check not built yet in this session (build order in DESIGN.md section 9); no claim is made"


def main():
    props = [json.loads(l) for l in open(os.path.join(VERIF, 'properties.jsonl'))]
    checks, na = [], []
    for p in props:
        pid = p['id']
        ent = REG.get(pid)
        if not ent or not ent[0]:
            na.append({'property_id': pid, 'reason': (ent[3] if ent else NOT_YET)})
            continue
        checks.append({
            'property_id': pid,
            'quick_cmd': './check %s --tier quick' % pid,
            'thorough_cmd': './check %s --tier thorough' % pid,
            'evidence_file': '/verif/evidence/%s.json' % pid,
            'replay_cmd_template': './check %s --replay {path}' % pid,
            'engine': 'coq-model+py-harness',
            'level_claimed': {'category': 'proof', 'text': ent[1], 'design_ref': 'DESIGN.md section 5, %s' % pid},
            'level_note': TB + ent[3],
            'technique': ent[2],
        })
    man = {
        'version': 1,
        'setup_cmd': './check --setup',
        'hooks': {'guard': 'PYASN1_VERIF', 'enable': 'environment variable PYASN1_VERIF=1 (set by ./check); no hook commits exist in /repo',
                  'baseline_off_cmd': BASELINE, 'source_commits': [], 'add_only': True},
        'engines': [
            {'name': 'coq-model', 'path': 'coq/', 'serves_properties': [c['property_id'] for c in checks],
             'kind_free_text': 'Gallina model of pyasn1 (Model/), independent specs (Spec/), proofs (Proofs/), property theorems (Props/), tables regenerated from /repo (Gen/)'},
            {'name': 'py-harness', 'path': 'harness/', 'serves_properties': [c['property_id'] for c in checks],
             'kind_free_text': 'case generators, implementation runners, canonicalisers, Coq literal printers, findings classifier, evidence writer'},
            {'name': 'tables-translator', 'path': 'harness/tables.py', 'serves_properties': [c['property_id'] for c in checks],
             'kind_free_text': 'reflection translator: codec TAG_MAP/TYPE_MAP, flags, tags, exception lattice -> coq/Gen/Tables.v, fail-closed'},
        ],
        'checks': checks,
        'notes': 'All checks: ./check <id> --tier quick|thorough. Known findings: known_findings.json. Design: DESIGN.md.',
        'not_applicable': na,
    }
    with open(os.path.join(VERIF, 'MANIFEST.json'), 'w') as f:
        json.dump(man, f, indent=1)
    print('MANIFEST.json: %d checks, %d not claimed' % (len(checks), len(na)))


if __name__ == '__main__':
    main()

"""Writes /verif/MANIFEST.json from the registry below (so it stays valid at all times)."""
import json, os, sys

VERIF = os.path.dirname(os.path.dirname(os.path.abspath(__file__)))
BASELINE = "cd /repo && /venv/bin/python -m pytest -ra -q -p no:cacheprovider --timeout=900 --continue-on-collection-errors"

TB = ("Trusted: Coq 8.16.1 kernel incl. vm_compute (no native_compute, no extraction); axioms as printed by Print Assumptions "
      "(recorded per run in the evidence file); harness/tables.py (reflection translator regenerating coq/Gen/Tables.v from /repo "
      "on every run); the correspondence harness (runs /repo code, canonicalises observables, prints Coq literals; bounded by "
      "generator quality, distribution printed in evidence). Modelled, not verified: CPython built-ins, the generator protocol "
      "(abstracted as resumption of an interaction tree), text codecs, float/strtod, datetime, threads. ")

# pid -> (claimed?, level text, technique, extra note / reason when not claimed)
REG = {
 'C01': (True,
   "Coq model of the BER encoder (all modes) and of the guided BER decoder (interaction-tree style), each compared with /repo by "
   "differential execution inside Coq (vm_compute) on random (type, value, mode) cases, plus an implementation-level round-trip "
   "search with shrinking; theorems: header octets invert for every tag/length (unbounded), staged content/round-trip lemmas "
   "(see evidence 'theorems' for the stage reached).",
   "Rocq/Coq proof over a Gallina model of the codec + vm_compute correspondence against /repo",
   "Round trip is proved for the stage listed in the evidence; beyond it the property rests on the correspondence and the search. "
   "Known findings F01 (pinned by a test) is reported as KNOWN-FINDING. Decimal REAL and non-ASCII UTF-8/16/32 validity are outside the model."),
 'C02': (True,
   "The three decoders are one Coq decoder model parameterised by dispatch tables regenerated from /repo; a computed table fact shows "
   "DER entries only add rejections to CER entries and CER to BER (decoders-agree by refinement of tables); the encoder's fixed "
   "CER/DER modes are table facts; the five (encoder, decoder) pairs and decoder agreement on DER/CER/BER-only encodings are checked by "
   "differential execution in Coq and an implementation-level search with shrinking.",
   "Rocq/Coq proof by computation over regenerated tables + model/implementation correspondence (vm_compute)",
   "The full statement dec d (enc DER T v) = v over the universe is staged (see C01); known findings F01, F24 (both pinned by tests)."),
 'C03': (True,
   "An independent X.690 reference written in Coq from the standard (Spec/X690.v: DER/CER as functions, a BER TLV-tree reader) is "
   "evaluated by vm_compute against the implementation's DER/CER bytes (byte identity) and BER/CER outputs (same abstract value); "
   "theorems: the reference's identifier and length octets coincide with the model of pyasn1's encoder for every tag and length.",
   "Rocq/Coq: independent executable X.690 specification evaluated in the kernel's VM + equivalence lemmas (induction on digit recursion)",
   "The byte-identity theorem enc DER = X690.der over the whole universe is proved only for the header layer so far; the rest is decided "
   "per input by evaluating the reference. Known findings F01, F24 (pinned), F35."),
 'C05': (True,
   "Generic Coq theorems over interaction trees: any decoder using only all-or-nothing re-tryable reads, tell/seek-back/mark and the "
   "end-of-stream test yields under every well-formed arrival schedule exactly the complete run's result after some underrun reports "
   "(induction on the schedule; simulation lemmas by induction on the tree), underrun only while bytes are missing; instantiated for the "
   "model of StreamingDecoder.__iter__ for every codec/fuel/guiding type. Tied to /repo by all 2^(n-1) partitions of short streams, sampled "
   "schedules with polls/short reads/late close on seekable and non-seekable doubles, compared with `drive` evaluated in Coq.",
   "Rocq/Coq proof (simulation + induction over schedules and interaction trees) + vm_compute correspondence against /repo",
   "The instance for the decoder is conditional on the complete run not reaching ReadAll (reachable only via malformed string fragments); "
   "the Python generator protocol is abstracted as resumption of a tree; BytesIO subclasses that grow are outside (fast path)."),
 'C06': (True,
   "Generic Coq theorems: a decoder that never observes the end of its input and decodes e treats every proper prefix on a closed stream "
   "as the end-of-stream error and suspends on an open one; instantiated for the decoder model (any codec/fuel/type) under a computable "
   "cleanliness condition on the complete run; exception lattice facts from regenerated tables. Tied to /repo by every cut point of "
   "generated encodings in three presentations, with and without guiding type.",
   "Rocq/Coq proof (induction over interaction trees) + vm_compute correspondence against /repo",
   "Conditional on the run of the complete encoding being clean (no AtEOS/ReadAll), evaluated per case."),
 'C07': (True,
   "Generic Coq theorem: a clean decoder returns the same value whatever follows, stops at the same position, tail untouched; instance "
   "for the decoder model; tied to /repo by encodings x tails {empty, zeros, another encoding, garbage} and streams of n encodings with positions.",
   "Rocq/Coq proof (induction over interaction trees) + vm_compute correspondence against /repo",
   "Known finding F01 (encoder appends a stray end-of-octets, pinned by a test)."),
 'C11': (True,
   "Coq state-machine model of CachingStreamWrapper and of an abstract seekable stream; refinement theorem for every permitted "
   "operation history (induction on the history) for the repaired wrapper and, excluding the F06 class, for the code as it is; "
   "asSeekableStream normalisation; any client choosing its next call from the answers so far gets the same answers. Tied to /repo by "
   "all histories of length <= 4, random histories and decoding the same bytes through 8 substrate kinds.",
   "Rocq/Coq refinement proof (induction over operation histories) + vm_compute correspondence against /repo",
   "F06 (position renumbering after a cache drop) is pinned by tests/codec/test_streaming.py::testMarkedPositionResets: known finding. "
   "That the decoders are permitted clients and that file/gzip/zip readers behave as the abstract stream is observed, not proved."),
 'C13': (True,
   "Coq theorems over the tag/identifier/length model: identifier octets written by the encoder are read back by the decoder "
   "for every class, form and number (unbounded), long form is minimal, definite lengths of any size round-trip, implicit/explicit "
   "tag algebra; tied to /repo by differential execution of public encode/decode on the class x number grid (model evaluated "
   "inside Coq by vm_compute) and by an implementation-level accept/reject search.",
   "Rocq/Coq proof (induction over base-128/256 digit recursion) + vm_compute correspondence against /repo",
   "Spine/near-miss theorems over the full type universe are added with the codec model (see evidence 'theorems')."),
 'C14': (True,
   "Inductive model of the 12 public constraint classes with a 3-valued evaluator following each _testValue, an independent "
   "set-theoretic denotation, and proofs by nested structural induction that evaluation = denotation at any depth, derived types "
   "admit subsets and are recognised (as repaired), and every value-producing scalar operation checks constraints. Tied to /repo by "
   "random constraint trees with boundary candidates, derivation chains and dunder batteries.",
   "Rocq/Coq proof (nested structural induction over constraint trees) + vm_compute correspondence against /repo",
   "Known findings F14b, F14c, F13 (open). Float REAL arithmetic is outside the model."),
 'C04': (True,
   "Coq theorems on the encoder model: permuting SET OF members (resp. SET components) leaves the CER/DER contents and the complete encoding "
   "unchanged (stable insertion sort by padded octets / by outermost tag, under distinctness of keys; refutation witnesses without it); the "
   "container models factor DER through abstract content for every reachable state; reads preserve DER. Tied to /repo by pairs of "
   "construction histories reaching the same abstract value (permutations, explicit/implicit defaults, decode of BER variants, clone, "
   "interleaved read-only uses) compared on DER and CER bytes and with the model.",
   "Rocq/Coq proof (permutation invariance of stable sorts, induction over histories) + vm_compute correspondence against /repo",
   "der(decode(e)) = e and 'decoded from any BER form' are decided per input by the harness; known findings F24 (pinned), F18a, F18d."),
 'C08': (True,
   "The decoder model carries explicit Crash outcomes wherever the code performs an unguarded partial operation; theorems: on a closed stream "
   "the decoder never waits (always finishes) for every codec/fuel/type/input, the position never passes the input length; the crash-free "
   "and value-not-placeholder claims are decided per input: all byte strings up to length 2 (3 thorough) over 18 structural octets x 3 "
   "decoders x 16 guiding types, plus mutants of valid encodings, outcome class compared with the model evaluated in Coq.",
   "Rocq/Coq proof (totality by structural recursion + induction over interaction trees) + exhaustive/mutation correspondence (vm_compute)",
   "Known finding F22 (MemoryError for absurd lengths on real file readers). Step bound measured on stream doubles (reads <= 8*len+16)."),
 'C09': (True,
   "An independent reference generator of BER(T, v) (every X.690 choice point random) is validated in Coq against the X.690 reference reader, "
   "then the implementation and the decoder model decode each drawn encoding; theorems cover the framing-layer choice points (identifier "
   "forms, over-long lengths with any number of leading zeros, any non-zero TRUE).",
   "Rocq/Coq proof (framing layer) + reference-validated differential execution (vm_compute)",
   "The completeness theorem over the whole relation is stated, not yet proved; decided per input."),
 'C10': (True,
   "Theorems over the decoder model for arbitrary input: a SEQUENCE/SET result has every mandatory member (induction over the member loop, "
   "members decoded by an arbitrary sub-decoder), a definite-length element is accepted only when exactly its length was consumed; per input: "
   "valid, neighbour-type and mutated encodings - on acceptance independent well-formedness, re-encodability and the decode(encode) fixpoint; "
   "constrained types (value range, sizes incl. SEQUENCE OF/SET OF).",
   "Rocq/Coq proof (induction over decoder loops via bind laws) + vm_compute correspondence against /repo",
   "Full soundness statement staged; known findings F01, F24 (pinned)."),
 'C12': (True,
   "Coq theorems: encoding leaves abstract content/encoding/comparisons of all three container kinds unchanged; k independent step machines "
   "stepped in any interleaving reach the states they reach alone (induction on the interleaving), instantiated for suspended decoders "
   "(continuation + stream); model functions are deterministic. Harness: snapshots of values/schemas before and after codec calls, aliasing "
   "probes, shared-singleton call histories, interleaved streaming decoders, 8 threads, debug logging on/off, each outcome also compared with the model.",
   "Rocq/Coq proof (product-machine interleaving, reads-inert lemmas) + vm_compute correspondence against /repo",
   "Threads (sampled schedules) and debug logging are exercised by the harness only; object identity/aliasing has no model."),
 'C15': (True,
   "Computed facts on the dispatch tables regenerated from /repo on every run (every DER string decoder, by tag and by type id, forbids the "
   "constructed form; DER has no indefinite lengths; DER and CER use the strict BOOLEAN decoder by tag and by type id) + model lemmas saying "
   "what those entries do at any depth; tied to /repo by every single non-canonical rewrite of every element of generated DER encodings, "
   "with and without guiding type.",
   "Rocq/Coq proof by computation over regenerated tables + decoder lemmas + vm_compute correspondence",
   "The defect this property was written for (F04) is repaired in /repo; a table regression breaks the table theorem directly."),
 'C16': (True,
   "Theorem: the type object a schemaless decode builds carries exactly the wire tags under any stack of EXPLICIT tags (so re-encoding writes "
   "the same identifier octets); per input: DER/BER/CER encodings of the implicit-free sub-universe decoded without schema by all three "
   "decoders: value object, byte-identical DER re-encoding, same scalar leaves; model decode+re-encode compared in Coq.",
   "Rocq/Coq proof (induction over explicit tag stacks) + vm_compute correspondence against /repo",
   "Full statement staged; known finding F01 (pinned) shows through BER-indefinite/CER inputs."),
 'C17': (True,
   "Coq model of the native encoder/decoder and of the bare-value branch of the BER/CER/DER encoders; theorems by induction on the type: native "
   "round trip preserves abstract content (ANY included), Python-value encoding equals value-object encoding for every codec/mode incl. absent "
   "OPTIONAL keys; tied to /repo by random values, every subset of OPTIONAL keys, every CHOICE alternative.",
   "Rocq/Coq proof (structural induction over the type universe) + vm_compute correspondence against /repo",
   "REAL other than +-inf/0 goes through Python float: outside the model (compared implementation-to-implementation)."),
 'C18': (True,
   "Coq model of open-type wrapping and of the second decoding pass on top of the codec model; theorems (with the record round trip as an "
   "explicit premise): raw field = complete inner encoding when resolution is off/unmapped, resolved inner value when on, caller map wins, "
   "for scalar and SET OF/SEQUENCE OF ANY; refutation witnesses for the F01 class. Tied to /repo over INTEGER/OID-keyed maps x taggings x codecs x options.",
   "Rocq/Coq proof (conditional on the staged codec round trip) + vm_compute correspondence against /repo",
   "Premise = codec round trip (C01/C02 stage); known findings F01, F24 (pinned)."),
 'C19': (True,
   "Coq models of SequenceOf/SetOf (sparse dict), Sequence/Set (slot list) and Choice objects as step functions, refinement to plain "
   "list/dict/option specs by induction on the history with one lemma per operation; reads inert; ill-formed operations inert; CHOICE "
   "holds at most one alternative (invariant). Tied to /repo by random histories compared after every step with the real objects and a Python prototype.",
   "Rocq/Coq refinement proof (induction over operation histories) + vm_compute correspondence against /repo",
   "Partial where the code violates the statement: known findings F18a, F18d (pinned), F18h, F18i with _refuted witnesses."),
 'C20': (True,
   "Coq model of fromDateTime/asDateTime and of the CER/DER time canonicalisation as coded, an independent X.680 reader, and proofs "
   "(unbounded in every field) that the round trip preserves instant and offset for every whole-minute offset, that non-UTC strings "
   "are refused, and of canonical output outside the recorded finding classes. Tied to /repo by the full grid of the property and "
   "X.680 grammar strings.",
   "Rocq/Coq proof (case analysis + lia over unbounded date fields) + vm_compute correspondence against /repo",
   "Known findings F12 (pinned), F27. strptime/strftime are modelled as field parsing/formatting."),
}
NOT_YET = "check not built yet in this session (build order in DESIGN.md section 9); no claim is made"


def main():
    props = [json.loads(l) for l in open(os.path.join(VERIF, 'properties.jsonl'))]
    checks, na = [], []
    for p in props:
        pid = p['id']
        ent = REG.get(pid)
        if not ent or not ent[0]:
            na.append({'property_id': pid, 'reason': (ent[3] if ent else NOT_YET)})
            continue
        checks.append({
            'property_id': pid,
            'quick_cmd': './check %s --tier quick' % pid,
            'thorough_cmd': './check %s --tier thorough' % pid,
            'evidence_file': '/verif/evidence/%s.json' % pid,
            'replay_cmd_template': './check %s --replay {path}' % pid,
            'engine': 'coq-model+py-harness',
            'level_claimed': {'category': 'proof', 'text': ent[1], 'design_ref': 'DESIGN.md section 5, %s' % pid},
            'level_note': TB + ent[3],
            'technique': ent[2],
        })
    man = {
        'version': 1,
        'setup_cmd': './check --setup',
        'hooks': {'guard': 'PYASN1_VERIF', 'enable': 'environment variable PYASN1_VERIF=1 (set by ./check); no hook commits exist in /repo',
                  'baseline_off_cmd': BASELINE, 'source_commits': [], 'add_only': True},
        'engines': [
            {'name': 'coq-model', 'path': 'coq/', 'serves_properties': [c['property_id'] for c in checks],
             'kind_free_text': 'Gallina model of pyasn1 (Model/), independent specs (Spec/), proofs (Proofs/), property theorems (Props/), tables regenerated from /repo (Gen/)'},
            {'name': 'py-harness', 'path': 'harness/', 'serves_properties': [c['property_id'] for c in checks],
             'kind_free_text': 'case generators, implementation runners, canonicalisers, Coq literal printers, findings classifier, evidence writer'},
            {'name': 'tables-translator', 'path': 'harness/tables.py', 'serves_properties': [c['property_id'] for c in checks],
             'kind_free_text': 'reflection translator: codec TAG_MAP/TYPE_MAP, flags, tags, exception lattice -> coq/Gen/Tables.v, fail-closed'},
        ],
        'checks': checks,
        'notes': 'All checks: ./check <id> --tier quick|thorough. Known findings: known_findings.json. Design: DESIGN.md.',
        'not_applicable': na,
    }
    with open(os.path.join(VERIF, 'MANIFEST.json'), 'w') as f:
        json.dump(man, f, indent=1)
    print('MANIFEST.json: %d checks, %d not claimed' % (len(checks), len(na)))


if __name__ == '__main__':
    main()

"""Running the implementation and canonicalising what it does (errors by class, never by message)."""
import os, zlib
from harness import core
core.use_repo()
from pyasn1 import error
from pyasn1.codec.ber import encoder as ber_enc, decoder as ber_dec
from pyasn1.codec.cer import encoder as cer_enc, decoder as cer_dec
from pyasn1.codec.der import encoder as der_enc, decoder as der_dec
from harness.coqio import cbytes

ENC = {'BER': ber_enc, 'CER': cer_enc, 'DER': der_enc}
DEC = {'BER': ber_dec, 'CER': cer_dec, 'DER': der_dec}
CRASHES = ['IndexError', 'AttributeError', 'TypeError', 'ValueError', 'OverflowError', 'RecursionError',
           'RuntimeError', 'KeyError']


def err_class(e):
    """exception -> Coq `err` constructor text"""
    if isinstance(e, error.EndOfStreamError): return 'EEndOfStream'
    if isinstance(e, error.SubstrateUnderrunError): return 'EUnderrun'
    if isinstance(e, error.ValueConstraintError): return 'EConstraint'
    if isinstance(e, error.PyAsn1UnicodeError): return 'EUnicode'
    if isinstance(e, error.UnsupportedSubstrateError): return 'EUnsupported'
    if isinstance(e, error.PyAsn1Error): return 'EMalformed'
    for c in CRASHES:
        if type(e).__name__ == c or any(b.__name__ == c for b in type(e).__mro__):
            return '(ECrash %s)' % c
    return '(ECrash RuntimeError)'


def is_library(cls_text):
    return not cls_text.startswith('(ECrash')


def run_encode(codec, obj, **opts):
    """('ok', bytes) | ('err', coq err text, repr)"""
    try:
        return ('ok', bytes(ENC[codec].encode(obj, **opts)))
    except RecursionError as e:
        return ('err', '(ECrash RecursionError)', 'RecursionError')
    except Exception as e:
        return ('err', err_class(e), '%s: %s' % (type(e).__name__, str(e)[:200]))


HISTORY_ON = os.environ.get('VERIF_HISTORY', '1') != '0'


def warm(codec, data, **opts):
    """A history: the other codecs' decoders see the same octets first (with the same options and with
    none).  The model's decoders are functions of (codec, type, octets) alone, so nothing that ran
    before may change an outcome; caches shared between calls or between codecs would.  Before that, other types are
    derived from the guiding object (and its component types) by subtype()/clone() and thrown away."""
    spec = opts.get('asn1Spec')
    if spec is not None:
        derive_from(spec)
    for other in ('BER', 'CER', 'DER'):
        if other == codec:
            continue
        for kw in (opts, {}):
            try:
                DEC[other].decode(data, **kw)
            except RecursionError:
                pass
            except Exception:
                pass


def derive_from(obj, depth=0):
    """read-only uses of a type/value object that build OTHER objects from it, results thrown away: retagged and
    re-constrained flavours by subtype(...) / clone(...), for the object and (constructed types) its component types.
    Schemas are routinely derived from one another this way; none of it may change what `obj` itself means."""
    from pyasn1.type import tag as _tag, constraint as _cn, univ as _u, base as _b
    t1 = _tag.Tag(_tag.tagClassContext, _tag.tagFormatSimple, 9)
    t2 = _tag.Tag(_tag.tagClassApplication, _tag.tagFormatConstructed, 40)
    ops = [lambda: obj.subtype(explicitTag=t1), lambda: obj.clone(subtypeSpec=_cn.ConstraintsIntersection()),
           lambda: obj.subtype(subtypeSpec=_cn.ConstraintsIntersection())]
    if getattr(obj, 'tagSet', None):
        ops += [lambda: obj.subtype(implicitTag=t2), lambda: obj.clone(tagSet=obj.tagSet.tagExplicitly(t2))]
    for f in ops:
        try:
            f()
        except Exception:
            pass
    if depth < 3:
        ct = getattr(obj, 'componentType', None)
        if isinstance(obj, _u.SequenceOfAndSetOfBase) and ct is not None and ct is not _b.noValue:
            derive_from(ct, depth + 1)
        elif isinstance(obj, _u.SequenceAndSetBase) and ct is not None:
            try:
                for nt in ct.namedTypes:
                    derive_from(nt.asn1Object, depth + 1)
            except Exception:
                pass


def run_decode(codec, data, **opts):
    """('ok', obj, rest) | ('err', coq err text, repr).  For a quarter of the inputs (chosen by a checksum
    of the octets, so a replay does the same) the call is preceded by the history `warm`."""
    if HISTORY_ON and isinstance(data, (bytes, bytearray)) and len(data) < 4096 and zlib.crc32(bytes(data)) & 3 == 0 and not opts.get('substrateFun'):
        warm(codec, data, **opts)
    try:
        v, rest = DEC[codec].decode(data, **opts)
        return ('ok', v, bytes(rest))
    except RecursionError:
        return ('err', '(ECrash RecursionError)', 'RecursionError')
    except Exception as e:
        return ('err', err_class(e), '%s: %s' % (type(e).__name__, str(e)[:200]))


def coq_res_bytes(r):
    if r[0] == 'ok':
        return '(Ok %s)' % cbytes(r[1])
    return '(Err %s)' % r[1]

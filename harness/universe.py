"""The schema universe U on the Python side: type/value descriptors, pyasn1 objects built from
them through the public API, Coq literals for the model, and the abstract-content extractor."""
from fractions import Fraction
from harness import core
from harness.coqio import cbool, cbytes, clist, cZ, cnat, ctag, CLS
core.use_repo()
from pyasn1.type import univ, char, useful, tag, namedtype, base

STR_TYPES = {
    'UTF8String': (char.UTF8String, 12), 'NumericString': (char.NumericString, 18),
    'PrintableString': (char.PrintableString, 19), 'TeletexString': (char.TeletexString, 20),
    'VideotexString': (char.VideotexString, 21), 'IA5String': (char.IA5String, 22),
    'GraphicString': (char.GraphicString, 25), 'VisibleString': (char.VisibleString, 26),
    'GeneralString': (char.GeneralString, 27), 'UniversalString': (char.UniversalString, 28),
    'BMPString': (char.BMPString, 30), 'ObjectDescriptor': (useful.ObjectDescriptor, 7),
    'GeneralizedTime': (useful.GeneralizedTime, 24), 'UTCTime': (useful.UTCTime, 23),
}
SIMPLE = {'bool': univ.Boolean, 'int': univ.Integer, 'enum': univ.Enumerated, 'bits': univ.BitString,
          'octs': univ.OctetString, 'null': univ.Null, 'oid': univ.ObjectIdentifier, 'real': univ.Real,
          'any': univ.Any}
COQ_SIMPLE = {'bool': 'TBool', 'int': 'TInt', 'enum': 'TEnum', 'bits': 'TBits', 'octs': 'TOcts', 'null': 'TNull',
              'oid': 'TOid', 'real': 'TReal', 'any': 'TAny'}


def base_desc(T):
    while T[0] in ('imp', 'exp'):
        T = T[2]
    return T


def is_untagged(T):
    return T[0] in ('choice', 'any')


def mk_tag(t):
    return tag.Tag(t[0], t[1], t[2])


def build_type(T):
    k = T[0]
    if k in SIMPLE:
        return SIMPLE[k]()
    if k == 'str':
        return STR_TYPES[T[1]][0]()
    if k in ('seq', 'set', 'choice'):
        nts = []
        if k == 'choice':
            for i, a in enumerate(T[1]):
                nts.append(namedtype.NamedType('f%d' % i, build_type(a)))
            return univ.Choice(componentType=namedtype.NamedTypes(*nts))
        for i, (p, ft) in enumerate(T[1]):
            if p == 'req':
                nts.append(namedtype.NamedType('f%d' % i, build_type(ft)))
            elif p == 'opt':
                nts.append(namedtype.OptionalNamedType('f%d' % i, build_type(ft)))
            else:
                nts.append(namedtype.DefaultedNamedType('f%d' % i, build_value(ft, p[1])))
        cls = univ.Sequence if k == 'seq' else univ.Set
        return cls(componentType=namedtype.NamedTypes(*nts))
    if k == 'seqof':
        return univ.SequenceOf(componentType=build_type(T[1]))
    if k == 'setof':
        return univ.SetOf(componentType=build_type(T[1]))
    if k == 'imp':
        return build_type(T[2]).subtype(implicitTag=mk_tag(T[1]))
    if k == 'exp':
        return build_type(T[2]).subtype(explicitTag=mk_tag(T[1]))
    raise ValueError(T)


def build_value(T, v, spec=None):
    """value object of type T holding v, built through the public API"""
    t = spec if spec is not None else build_type(T)
    b = base_desc(T)
    k = b[0]
    if k == 'bool': return t.clone(1 if v[1] else 0)
    if k in ('int', 'enum'): return t.clone(v[1])
    if k == 'bits': return t.clone(tuple(v[1]))
    if k == 'octs': return t.clone(bytes(v[1]))
    if k == 'any': return t.clone(bytes(v[1]))
    if k == 'null': return t.clone('')
    if k == 'oid': return t.clone(tuple(v[1]))
    if k == 'real': return t.clone(v[1] if isinstance(v[1], str) else tuple(v[1]))
    if k == 'str':
        return t.clone(v[1])     # python text for ('chars', s); octets for ('o', b)
    if k in ('seq', 'set'):
        obj = t.clone()
        n = 0
        for i, ((p, ft), fv) in enumerate(zip(b[1], v[1])):
            if fv is not None:
                obj.setComponentByPosition(i, build_value(ft, fv, spec=t.componentType[i].asn1Object))
                n += 1
        if not n:
            obj.clear()      # a value object with no component set (as opposed to a schema object)
        return obj
    if k in ('seqof', 'setof'):
        obj = t.clone()
        obj.clear()
        for x in v[1]:
            obj.append(build_value(b[1], x, spec=t.componentType))
        return obj
    if k == 'choice':
        obj = t.clone()
        i = v[1]
        obj.setComponentByPosition(i, build_value(b[1][i], v[2], spec=t.componentType[i].asn1Object))
        return obj
    raise ValueError(T)


# ---------------------------------------------------------------------------------------------
# Coq literals

def coq_ty(T):
    k = T[0]
    if k in COQ_SIMPLE: return COQ_SIMPLE[k]
    if k == 'str': return '(TStr %d)' % STR_TYPES[T[1]][1]
    if k in ('seq', 'set'):
        fs = []
        for p, ft in T[1]:
            if p == 'req': cp = 'Req'
            elif p == 'opt': cp = 'Opt'
            else: cp = '(Def %s)' % coq_val(ft, p[1])
            fs.append('(%s, %s)' % (cp, coq_ty(ft)))
        return '(%s %s)' % ('TSeq' if k == 'seq' else 'TSet', clist(fs))
    if k == 'seqof': return '(TSeqOf %s)' % coq_ty(T[1])
    if k == 'setof': return '(TSetOf %s)' % coq_ty(T[1])
    if k == 'choice': return '(TChoice %s)' % clist([coq_ty(a) for a in T[1]])
    if k == 'imp': return '(TImp %s %s)' % (ctag(T[1][0], bool(T[1][1]), T[1][2]), coq_ty(T[2]))
    if k == 'exp': return '(TExp %s %s)' % (ctag(T[1][0], bool(T[1][1]), T[1][2]), coq_ty(T[2]))
    raise ValueError(T)


def str_encoding(T):
    return STR_TYPES[base_desc(T)[1]][0].encoding


def coq_real(r):
    if r == 'inf': return 'RPInf'
    if r == '-inf': return 'RNInf'
    m, b, e = r
    if b == 2: return '(RBin %s %s)' % (cZ(m), cZ(e))
    if b == 10: return '(RDec %s %s)' % (cZ(m), cZ(e))
    return 'RFloat'


def real_of_obj(obj):
    """the (m, b, e) / inf the value object holds after pyasn1's own normalisation"""
    x = obj._value
    if isinstance(x, float):
        if x == float('inf'): return 'inf'
        if x == float('-inf'): return '-inf'
        return 'float'
    return tuple(int(y) for y in x)


def coq_val(T, v):
    b = base_desc(T)
    k = b[0]
    if v is None:
        raise ValueError('no value')
    if k == 'bool': return '(VBool %s)' % cbool(v[1])
    if k in ('int', 'enum'): return '(VInt %s)' % cZ(v[1])
    if k == 'bits': return '(VBits %s)' % clist([cbool(x) for x in v[1]])
    if k == 'octs': return '(VOcts %s)' % cbytes(v[1])
    if k == 'any': return '(VAny %s)' % cbytes(v[1])
    if k == 'null': return 'VNull'
    if k == 'oid': return '(VOid %s)' % clist(['%d' % a for a in v[1]])
    if k == 'real':
        r = v[1]
        if not isinstance(r, str):
            r = real_of_obj(univ.Real(tuple(r)))
            if r == 'float': return '(VReal RFloat)'
        return '(VReal %s)' % coq_real(r)
    if k == 'str':
        if v[0] == 'chars':
            enc = str_encoding(T)
            return '(VChars %s)' % clist([cbytes(ch.encode(enc)) for ch in v[1]])
        return '(VOcts %s)' % cbytes(v[1])
    if k in ('seq', 'set'):
        return '(VRec %s)' % clist(['None' if fv is None else '(Some %s)' % coq_val(ft, fv)
                                    for (p, ft), fv in zip(b[1], v[1])])
    if k in ('seqof', 'setof'):
        return '(VList %s)' % clist([coq_val(b[1], x) for x in v[1]])
    if k == 'choice':
        return '(VChoice %s %s)' % (cnat(v[1]), coq_val(b[1][v[1]], v[2]))
    raise ValueError(T)


# ---------------------------------------------------------------------------------------------
# abstract content of a pyasn1 object, never calling pyasn1's __eq__ / prettyPrint

_KIND_CLASS = {'real': univ.Real, 'bits': univ.BitString, 'bool': univ.Integer, 'int': univ.Integer, 'enum': univ.Integer,
               'oid': univ.ObjectIdentifier, 'null': univ.Null, 'any': univ.OctetString, 'octs': univ.OctetString,
               'str': univ.OctetString}


def absval(obj, T):
    """Abstract content tree of a pyasn1 value object against descriptor T (twin of Coq `abs`)."""
    b = base_desc(T)
    k = b[0]
    if obj is None or obj is base.noValue:
        return ('bad', 'None')
    if k == 'choice':
        if not isinstance(obj, univ.Choice) or obj._currentIdx is None:
            return ('bad', 'choice-none')
        i = obj._currentIdx
        return ('choice', i, absval(obj._componentValues[i], b[1][i]))
    if k in ('seq', 'set'):
        if not isinstance(obj, univ.SequenceAndSetBase):
            return ('bad', type(obj).__name__)
        cv = obj._componentValues
        out = []
        for i, (p, ft) in enumerate(b[1]):
            c = cv[i] if (cv is not base.noValue and i < len(cv)) else base.noValue
            if c is not base.noValue and c is not None and not c.isValue and p == 'req':
                out.append(('bad', 'novalue'))
            elif c is base.noValue or c is None or not c.isValue:
                if isinstance(p, tuple):
                    out.append(absval(build_value(ft, p[1]), ft))
                else:
                    out.append(None)
            else:
                out.append(absval(c, ft))
        return ('rec', tuple(out))
    if k in ('seqof', 'setof'):
        if not isinstance(obj, univ.SequenceOfAndSetOfBase):
            return ('bad', type(obj).__name__)
        cv = obj._componentValues
        if cv is base.noValue:
            return ('bad', 'list-novalue')
        items = [absval(cv[i], b[1]) if i in cv else ('bad', 'hole') for i in range(len(obj))]
        return ('bag' if k == 'setof' else 'list', tuple(items))
    if not getattr(obj, 'isValue', False):
        return ('bad', 'novalue')
    want = _KIND_CLASS.get(k)
    if want is not None and not isinstance(obj, want):
        return ('bad', 'class:' + type(obj).__name__)       # an object of another ASN.1 class is not a value of T
    if k == 'real':
        r = real_of_obj(obj)
        if r == 'inf': return ('real', 'pinf')
        if r == '-inf': return ('real', 'ninf')
        if r == 'float': return ('real', 'float')
        m, bs, e = r
        if m == 0: return ('real', 'zero')
        while m % bs == 0:
            m //= bs; e += 1
        return ('real', ('bin' if bs == 2 else 'dec', m, e))
    if k == 'bits': return ('bits', tuple(int(x) for x in obj.asBinary())) if len(obj) else ('bits', ())
    if k == 'bool': return ('bool', bool(int(obj._value)))
    if k in ('int', 'enum'): return ('int', int(obj._value))
    if k == 'oid': return ('oid', tuple(int(x) for x in obj._value))
    if k == 'null': return ('null',)
    if k == 'any': return ('any', bytes(obj.asOctets()))
    if k in ('octs', 'str'): return ('octs', bytes(obj.asOctets()))
    raise ValueError(T)


def coq_aval(a):
    if a is None: return 'None'
    k = a[0]
    if k == 'bool': return '(ABool %s)' % cbool(a[1])
    if k == 'int': return '(AInt %s)' % cZ(a[1])
    if k == 'bits': return '(ABits %s)' % clist([cbool(x) for x in a[1]])
    if k == 'octs': return '(AOcts %s)' % cbytes(a[1])
    if k == 'any': return '(AAny %s)' % cbytes(a[1])
    if k == 'null': return 'ANull'
    if k == 'oid': return '(AOid %s)' % clist(['%d' % x for x in a[1]])
    if k == 'real':
        r = a[1]
        if r == 'pinf': return '(AReal APInf)'
        if r == 'ninf': return '(AReal ANInf)'
        if r == 'zero': return '(AReal AZero)'
        if r == 'float': return '(AReal AFloat)'
        return '(AReal (%s %s %s))' % ('ABin' if r[0] == 'bin' else 'ADec', cZ(r[1]), cZ(r[2]))
    if k == 'rec': return '(ARec %s)' % clist(['None' if x is None else '(Some %s)' % coq_aval(x) for x in a[1]])
    if k == 'list': return '(AList %s)' % clist([coq_aval(x) for x in a[1]])
    if k == 'bag': return '(ABag %s)' % clist([coq_aval(x) for x in a[1]])
    if k == 'choice': return '(AChoice %s %s)' % (cnat(a[1]), coq_aval(a[2]))
    if k == 'bad': return 'ABad'
    raise ValueError(a)


def aval_eq(a, b):
    """equality of abstract content (SET OF as multisets)"""
    if a is None or b is None:
        return a is None and b is None
    if a[0] != b[0]: return False
    k = a[0]
    if k == 'bad': return False
    if k == 'rec' or k == 'list':
        return len(a[1]) == len(b[1]) and all(aval_eq(x, y) for x, y in zip(a[1], b[1]))
    if k == 'bag':
        if len(a[1]) != len(b[1]): return False
        rest = list(b[1])
        for x in a[1]:
            for j, y in enumerate(rest):
                if aval_eq(x, y):
                    del rest[j]; break
            else:
                return False
        return True
    if k == 'choice':
        return a[1] == b[1] and aval_eq(a[2], b[2])
    return a == b


def absval_of_desc(T, v):
    """abstract content of a value descriptor (what the caller meant), independent of pyasn1 objects
    except for REAL/char normalisation done by building the leaf"""
    return absval(build_value(T, v), T)


def has_bad(a):
    if a is None: return False
    if a[0] == 'bad': return True
    if a[0] in ('rec', 'list', 'bag'): return any(has_bad(x) for x in a[1])
    if a[0] == 'choice': return has_bad(a[2])
    return False


def absval_top(obj, T):
    """absval, with any misfit anywhere (or an exception while walking a broken object) collapsed to ('bad',)"""
    try:
        a = absval(obj, T)
    except Exception as e:
        return ('bad', '%s: %s' % (type(e).__name__, str(e)[:100]))
    return ('bad', 'inner') if has_bad(a) else a

"""Evaluate seeded changes: confirm each (tests pass, demo fails with / passes without), then run the checks against it.
usage: /venv/bin/python -m harness.seeded <src_dir_with_Cxx_subdirs> [ids...]"""
import json, os, shutil, subprocess, sys, time

VERIF = os.path.dirname(os.path.dirname(os.path.abspath(__file__)))
WT = '/tmp/mverify_%d' % os.getpid()          # per process: evaluations may run side by side
COQCOPY = '/tmp/mverify_coq_%d' % os.getpid()


def sh(cmd, cwd=None, timeout=1800, env=None):
    r = subprocess.run(cmd, shell=True, cwd=cwd, stdout=subprocess.PIPE, stderr=subprocess.STDOUT, text=True, timeout=timeout, env=env)
    return r.returncode, r.stdout


def fresh_worktree():
    sh('git -C /repo worktree remove --force %s' % WT)
    shutil.rmtree(WT, ignore_errors=True)
    rc, out = sh('git -C /repo worktree add -f %s HEAD' % WT)
    assert rc == 0, out


def evaluate(src, pid, checks=None, tier='quick'):
    d = os.path.join(src, pid)
    patch = os.path.join(d, 'patch.diff')
    res = {'property': pid}
    if not os.path.exists(patch) or not os.path.getsize(patch):
        res['status'] = 'no patch'; return res
    fresh_worktree()
    rc, out = sh('/venv/bin/python %s' % os.path.join(d, 'demo.py'), cwd=WT, timeout=600, env=dict(os.environ, PYTHONPATH=WT))
    res['demo_clean_rc'] = rc
    rc, out = sh('git apply %s' % patch, cwd=WT)
    if rc != 0:
        res['status'] = 'patch does not apply: ' + out[-300:]; return res
    rc, out = sh('/venv/bin/python -m pytest -q -p no:cacheprovider -x 2>&1 | tail -3', cwd=WT, timeout=1800)
    res['tests'] = out.strip().splitlines()[-1] if out.strip() else ''
    res['tests_pass'] = ' passed' in res['tests'] and 'failed' not in res['tests']
    rc, out = sh('/venv/bin/python %s' % os.path.join(d, 'demo.py'), cwd=WT, timeout=600, env=dict(os.environ, PYTHONPATH=WT))
    res['demo_changed_rc'] = rc
    res['confirmed'] = res['demo_clean_rc'] == 0 and res['demo_changed_rc'] != 0 and res['tests_pass']
    # the Coq development is copied too, so that tables regenerated from the changed tree never disturb /verif/coq
    sh('mkdir -p %s && rsync -a --delete --exclude Cases/ %s/coq/ %s/' % (COQCOPY, VERIF, COQCOPY))
    env = dict(os.environ, VERIF_REPO=WT, VERIF_COQ=COQCOPY)        # VERIF_SEED, if set, is passed through
    res['checks'] = {}
    for c in (checks or [pid]):
        t0 = time.time()
        rc, out = sh('./check %s --tier %s' % (c, tier), cwd=VERIF, env=env, timeout=3600)
        viol = [l for l in out.splitlines() if l.startswith('VIOLATION')]
        res['checks'][c] = {'rc': rc, 'violations': viol[:3], 'last': out.strip().splitlines()[-1] if out.strip() else '', 's': round(time.time() - t0)}
    sh('git -C /repo worktree remove --force %s' % WT)
    shutil.rmtree(COQCOPY, ignore_errors=True)
    return res


if __name__ == '__main__':
    src = sys.argv[1]
    ids = sys.argv[2:] or sorted(x for x in os.listdir(src) if x.startswith('C') and os.path.isdir(os.path.join(src, x)))
    for pid in ids:
        r = evaluate(src, pid)
        print(json.dumps(r))
        sys.stdout.flush()

"""Shared pieces of the codec properties (C01 C02 C03 C07 C09 C10 C13 C16): case generation,
what gets encoded, finding classifiers, Coq expressions."""
from harness import core, gen, universe as U, implrun as I
from harness.coqio import cbool, cbytes
from harness.gen import base_desc

NOINDEF = ('bool', 'int', 'enum', 'null', 'oid', 'real')     # codecs with supportIndefLenMode = False
CONSTRUCTED = ('seq', 'set', 'seqof', 'setof')


def tag_count(T):
    """number of tags in the type's tag set"""
    n = 0
    while T[0] in ('imp', 'exp'):
        if T[0] == 'exp':
            n += 1
        T = T[2]
    return n + (0 if T[0] in ('choice', 'any') else 1)


def default_equal(ft, fv, dv):
    """the encoder's `component == default` test, on descriptors (scalar defaults only)"""
    k = base_desc(ft)[0]
    if k == 'bits':
        return tuple(fv[1]) == tuple(dv[1])
    if fv[0] == 'chars' or dv[0] == 'chars':
        enc = U.str_encoding(ft)
        f = lambda x: x[1].encode(enc) if x[0] == 'chars' else bytes(x[1])
        return f(fv) == f(dv)
    return fv[1:] == dv[1:]


def encoded_components(T, v, top=True):
    """(type, value, is_optional_member) of every value node an encoder emits, outermost first"""
    yield T, v, False
    yield from _inner(T, v)


def _inner(T, v):
    b = base_desc(T)
    k = b[0]
    if k in ('seq', 'set'):
        for (p, ft), fv in zip(b[1], v[1]):
            if fv is None:
                continue
            if isinstance(p, tuple) and default_equal(ft, fv, p[1]):
                continue
            yield ft, fv, p == 'opt'
            yield from _inner(ft, fv)
    elif k in ('seqof', 'setof'):
        for x in v[1]:
            yield b[1], x, False
            yield from _inner(b[1], x)
    elif k == 'choice':
        yield b[1][v[1]], v[2], False
        yield from _inner(b[1][v[1]], v[2])


def emits_nothing(T, v):
    """constructed value whose contents octets are empty"""
    b = base_desc(T)
    k = b[0]
    if k in ('seqof', 'setof'):
        return len(v[1]) == 0
    if k in ('seq', 'set'):
        for (p, ft), fv in zip(b[1], v[1]):
            if fv is None:
                continue
            if isinstance(p, tuple) and default_equal(ft, fv, p[1]):
                continue
            return False
        return True
    return False


def f01_applies(T, v, indefinite):
    """F01: an EXPLICIT tag directly over BOOLEAN/INTEGER/ENUMERATED/NULL/OID/REAL, indefinite mode"""
    if not indefinite:
        return False
    for ct, cv, _ in encoded_components(T, v):
        if base_desc(ct)[0] in NOINDEF and tag_count(ct) >= 2:
            return True
    return False


def f24a_applies(T, v, codec):
    """F24a: CER/DER omit an OPTIONAL constructed component that is present but empty"""
    if codec not in ('CER', 'DER'):
        return False
    for ct, cv, opt in encoded_components(T, v):
        if not opt:
            continue
        k = base_desc(ct)[0]
        if tag_count(ct) == 0:
            continue            # untagged CHOICE/ANY return before the emptiness test
        if k in CONSTRUCTED and emits_nothing(ct, cv):
            return True
        if k == 'any' and codec == 'CER' and len(cv[1]) == 0:
            return True
    return False


def classify_roundtrip(T, v, codec, indefinite):
    if f01_applies(T, v, indefinite):
        return 'F01'
    if f24a_applies(T, v, codec):
        return 'F24'
    return None


class Case:
    __slots__ = ('T', 'v', 'obj', 'spec', 'want', 'cty', 'cval')

    def __init__(self, T, v):
        self.T, self.v = T, v
        self.spec = U.build_type(T)
        self.obj = U.build_value(T, v)
        self.want = U.absval_top(self.obj, T)
        self.cty = U.coq_ty(T)
        self.cval = U.coq_val(T, v)


def gen_cases(ctx, n, **kw):
    """n (type, value) cases of the universe, ANY only in the positions the library supports"""
    g = gen.Gen(ctx.rng, **kw)
    out = []
    tries = 0
    while len(out) < n and tries < 20 * n:
        tries += 1
        T = g.ty()
        if not any_positions_ok(T):
            continue
        v = g.val(T)
        try:
            c = Case(T, v)
        except Exception as e:          # a value the library refuses to build is not a case
            ctx.stats['unbuildable'] += 1
            continue
        out.append(c)
        for f in gen.features(T):
            ctx.stats['type:' + f] += 1
        ctx.stats['depth:%d' % gen.depth_of(T)] += 1
    return out


def any_positions_ok(T):
    """untagged ANY: at most one among the members of a SET, the alternatives of a CHOICE or a run of
    OPTIONAL members, and not inside or right after such a run (it is the tag map's catch-all)"""
    k = T[0]
    if k in ('imp', 'exp'):
        return any_positions_ok(T[2])
    if k in ('seqof', 'setof'):
        return any_positions_ok(T[1])
    if k in ('seq', 'set', 'choice'):
        comps = [ft for _, ft in T[1]] if k != 'choice' else list(T[1])
        if not all(any_positions_ok(c) for c in comps):
            return False
        n_any = sum(1 for c in comps if has_any_outer(c))
        if k in ('set', 'choice'):
            return n_any == 0 or (n_any == 1 and len(comps) == 1)
        run = 0
        for (p, ft) in T[1]:
            if p != 'req':
                run += 1
                if has_any_outer(ft): return False
            else:
                if run and has_any_outer(ft): return False
                run = 0
        return True
    return True


def has_any_outer(T):
    """an encoding of T may start with any tag at all (untagged ANY, possibly through untagged CHOICEs)"""
    if T[0] == 'any': return True
    if T[0] == 'choice':
        return any(has_any_outer(a) for a in T[1])
    return False


def code3(a, b):
    """combine two Coq outcome codes"""
    return 'match %s, %s with 1, _ | _, 1 => 1 | 2, _ | _, 2 => 2 | _, _ => 0 end' % (a, b)


def enc_expr(codec, defm, chunk, c, impl_res):
    return 'enc_code (encode %s %s %d %s %s) %s' % (codec, cbool(defm), chunk, c.cty, c.cval, I.coq_res_bytes(impl_res))


def dec_lit(T, d):
    if d[0] == 'ok':
        a = U.absval_top(d[1], T)
        return '(Ok (%s, %s))' % (U.coq_aval(a), cbytes(d[2])), ('ok', a, d[2])
    return '(Err %s)' % d[1], d


def dec_expr(codec, c, data, d_lit):
    return 'dec_code %s (decode %s (Some %s) %s) %s' % (c.cty, codec, c.cty, cbytes(data), d_lit)


def leaf_boundary_cases(ctx, every=1):
    """Systematic boundary values of the simple types - what random drawing only hits by luck: two's-complement
    edges of INTEGER at every octet count, REAL mantissa x exponent edges (sign pad octets of the exponent at
    +-2^7, +-2^15; mantissa octet boundaries), OID arcs at the base-128 digit boundaries and the 40*X+Y rule,
    BIT STRING lengths 0..17, string lengths at the short/long length-octet boundary; each plain and under
    one random tagging.  every=k keeps each k-th case (quick tiers)."""
    r = ctx.rng
    vals = []
    for k in range(1, 10):
        for z in (2 ** (8 * k - 1) - 1, 2 ** (8 * k - 1), -2 ** (8 * k - 1), -2 ** (8 * k - 1) - 1, 2 ** (8 * k) - 1, 2 ** (8 * k), -2 ** (8 * k)):
            vals.append((('int',), ('i', z)))
    for z in (0, 1, -1):
        vals.append((('int',), ('i', z))); vals.append((('enum',), ('i', z)))
    for e in (-32769, -32768, -32767, -257, -256, -255, -130, -129, -128, -127, -1, 0, 1, 126, 127, 128, 129, 255, 256, 32767, 32768):
        for m in (1, -1, 3, 255, 256, -65535):
            vals.append((('real',), ('real', (m, 2, e))))
    for arcs in ((0, 0), (0, 39), (1, 0), (1, 39), (2, 0), (2, 39), (2, 40), (2, 47), (2, 48), (2, 999), (2, 16303), (2, 16304),
                 (1, 2, 127), (1, 2, 128), (1, 2, 16383), (1, 2, 16384), (1, 2, 2097151), (1, 2, 2097152), (1, 2, 2 ** 32), (1, 2, 2 ** 64), (1, 2, 0, 0, 0)):
        vals.append((('oid',), ('oid', arcs)))
    for n in range(0, 18):
        vals.append((('bits',), ('bits', tuple((i * 5 + n) % 3 == 0 and 1 or 0 for i in range(n)))))
    # BIT STRINGs whose leading octets are all zero (a segmented encoding then starts with all-zero segments)
    for zeros, rest in ((8, (1, 0, 1, 0, 1, 0, 0, 1)), (16, (1,)), (8, ()), (24, ()), (16, (0, 0, 0, 1, 1)), (9, (1, 1))):
        vals.append((('bits',), ('bits', (0,) * zeros + rest)))
    for n in (0, 1, 126, 127, 128, 129, 255, 256):
        vals.append((('octs',), ('o', bytes((i + n) % 256 for i in range(n)))))
    vals.append((('bool',), ('b', True))); vals.append((('bool',), ('b', False))); vals.append((('null',), ('null',)))
    out = []
    for i, (T, v) in enumerate(vals):
        if every > 1 and (i + ctx.seed) % every:
            continue
        tagged = r.choice([('imp', (r.choice([64, 128, 192]), 0, r.choice([0, 30, 31, 127, 128, 16384])), T),
                           ('exp', (r.choice([64, 128, 192]), 0, r.choice([0, 30, 31, 127, 128, 16384])), T)])
        for TT in (T, tagged):
            try:
                out.append(Case(TT, v))
                ctx.stats['boundary:' + T[0]] += 1
            except Exception:
                ctx.stats['boundary_unbuildable'] += 1
    return out


def presence_grid_cases(ctx, every=1):
    """Every presence pattern of a three-member SEQUENCE and SET: each member mandatory, OPTIONAL or DEFAULT, and
    for each pattern every combination of present / absent / equal-to-default values.  What random types give only
    by luck: a DEFAULT omitted in front of a present OPTIONAL, at the first, middle and last position; the same with
    an untagged CHOICE as one of the members (reached while standing on an OPTIONAL/DEFAULT position), with a CHOICE nested
    directly in a CHOICE, and with two untagged CHOICE members in one run."""
    import itertools
    members0 = [(('int',), ('i', 7), ('i', 1)), (('octs',), ('o', b'ab'), ('o', b'd')), (('bool',), ('b', True), ('b', False))]
    # the CHOICE's DEFAULT holds the same inner value under the OTHER alternative: equal content, different value
    ch = (('choice', [('imp', (128, 0, 5), ('int',)), ('imp', (128, 0, 6), ('int',)), ('oid',)]), ('ch', 1, ('i', 7)), ('ch', 0, ('i', 7)))
    # an untagged CHOICE directly inside an untagged CHOICE (the member's tags are two levels down)
    ch2 = (('choice', [('choice', [('imp', (128, 0, 5), ('int',)), ('imp', (128, 0, 6), ('int',))]), ('oid',)]),
           ('ch', 0, ('ch', 1, ('i', 7))), ('ch', 0, ('ch', 0, ('i', 7))))
    # a second untagged CHOICE with tags of its own: two such members in one run of OPTIONAL/DEFAULT positions
    chb = (('choice', [('imp', (128, 0, 7), ('octs',)), ('null',)]), ('ch', 0, ('o', b'q')), ('ch', 1, ('null',)))
    families = [members0] + [members0[:j] + [c] + members0[j + 1:] for c in (ch, ch2) for j in range(3)]
    families += [[ch, chb, members0[2]], [ch, members0[1], chb], [members0[0], ch, chb], [chb, ch2, members0[2]]]
    out, i = [], 0
    # the plain family, then the same with an untagged CHOICE (mandatory, OPTIONAL or DEFAULT) at the first, middle, last position
    for kind, members in [(k, m) for k in ('seq', 'set') for m in families]:
        for pres in itertools.product(('req', 'opt', 'def'), repeat=3):
            fields = []
            for p, (t, val, dflt) in zip(pres, members):
                fields.append(((('def', dflt) if p == 'def' else p), t))
            T = (kind, fields)
            choices = []
            for p, (t, val, dflt) in zip(pres, members):
                choices.append([val] if p == 'req' else [val, None] if p == 'opt' else [val, dflt])
            for vs in itertools.product(*choices):
                i += 1
                if every > 1 and (i + ctx.seed) % every:
                    continue
                try:
                    out.append(Case(T, ('rec', list(vs))))
                    ctx.stats['presence-grid:' + kind] += 1
                except Exception:
                    ctx.stats['presence-grid-unbuildable'] += 1
    return out


def _grid_kinds():
    """one representative (type, value) per base kind of the universe: every simple type, every string and time
    type, every container kind"""
    ks = [(('bool',), ('b', True)), (('int',), ('i', -129)), (('enum',), ('i', 2)), (('bits',), ('bits', (1, 0, 1, 1, 0, 0, 0, 0, 1))),
          (('octs',), ('o', b'\x00\xffab')), (('null',), ('null',)), (('oid',), ('oid', (1, 3, 6, 1, 128))), (('real',), ('real', (5, 2, -3)))]
    for name in gen.CHAR_KINDS:
        ks.append((('str', name), ('chars', gen.ALPHABET[name][:3])))
    ks.append((('str', 'GeneralizedTime'), ('chars', '20170801120112.5Z')))
    ks.append((('str', 'UTCTime'), ('chars', '991231235959Z')))
    ks.append((('seq', [('req', ('int',)), ('opt', ('octs',))]), ('rec', [('i', 5), None])))
    ks.append((('set', [('req', ('int',)), ('req', ('bool',))]), ('rec', [('i', 5), ('b', False)])))
    ks.append((('seqof', ('int',)), ('list', [('i', 1), ('i', 300)])))
    ks.append((('setof', ('octs',)), ('list', [('o', b'b'), ('o', b'a')])))
    ks.append((('choice', [('int',), ('octs',)]), ('ch', 1, ('o', b'xy'))))
    return ks


def tag_grid_cases(ctx, every=1):
    """Every base kind under every tagging shape of depth 0..2 (none, EXPLICIT, IMPLICIT, EXPLICIT over EXPLICIT,
    EXPLICIT over IMPLICIT, IMPLICIT over EXPLICIT, IMPLICIT over IMPLICIT), the classes and the tag numbers
    rotating through {application, context, private} x {0, 30, 31, 127, 128, 16384}: what random drawing pairs only by
    luck (a time type directly under an EXPLICIT tag, a SET OF under IMPLICIT over EXPLICIT, ...)."""
    shapes = [(), ('exp',), ('imp',), ('exp', 'exp'), ('exp', 'imp'), ('imp', 'exp'), ('imp', 'imp')]
    nums = [0, 30, 31, 127, 128, 16384]
    classes = [128, 64, 192]
    out, i = [], 0
    for (T, v) in _grid_kinds():
        for shape in shapes:
            i += 1
            if every > 1 and (i + ctx.seed) % every:
                continue
            TT, ok = T, True
            for j, how in enumerate(reversed(shape)):          # innermost tagging first
                if how == 'imp' and TT[0] == 'choice':
                    ok = False; break                           # an untagged CHOICE cannot be tagged implicitly
                TT = (how, (classes[(i + j) % 3], 0, nums[(i + 2 * j) % 6]), TT)
            if not ok:
                continue
            try:
                out.append(Case(TT, v))
                ctx.stats['tag-grid:' + '/'.join(shape or ('plain',))] += 1
            except Exception:
                ctx.stats['tag-grid-unbuildable'] += 1
    return out


def set_order_grid_cases(ctx, every=1, universal_only=False):
    """Two-member SETs over every ordered pair of member types with distinct outer tags: one type per universal tag
    number in use (1..7, 9, 10, 12, 16, 17, 18..30) plus tagged members of each class - the canonical order of a SET
    (by class, then number, whatever the primitive/constructed form) exercised for every pair, declared both ways."""
    ms = []
    for (T, v) in _grid_kinds():
        if T[0] in ('choice',):
            continue
        ms.append((T, v))
    if not universal_only:
        ms += [(('imp', (128, 0, 0), ('int',)), ('i', 1)), (('exp', (128, 0, 1), ('int',)), ('i', 2)), (('imp', (128, 0, 31), ('seqof', ('int',))), ('list', [('i', 3)])),
               (('imp', (64, 0, 0), ('octs',)), ('o', b'q')), (('exp', (64, 0, 17), ('null',)), ('null',)), (('imp', (192, 0, 0), ('bool',)), ('b', True)),
               (('exp', (192, 0, 2 ** 32), ('octs',)), ('o', b''))]
    else:
        ms += [(('exp', (128, 0, 0), ('int',)), ('i', 1)), (('exp', (64, 0, 17), ('null',)), ('null',)), (('exp', (192, 0, 31), ('seqof', ('int',))), ('list', [('i', 3)]))]
    from harness.gen import outer_tags
    out, i = [], 0
    for a, (Ta, va) in enumerate(ms):
        for b, (Tb, vb) in enumerate(ms):
            if a == b or outer_tags(Ta) & outer_tags(Tb):
                continue
            i += 1
            if every > 1 and (i + ctx.seed) % every:
                continue
            try:
                out.append(Case(('set', [('req', Ta), ('req', Tb)]), ('rec', [va, vb])))
                ctx.stats['set-order-grid'] += 1
            except Exception:
                ctx.stats['set-order-grid-unbuildable'] += 1
    return out


def empty_member_grid_cases(ctx, every=1):
    """Records with a constructed member that is EMPTY (SEQUENCE OF / SET OF without elements, a nested SEQUENCE / SET all
    of whose members are OPTIONAL and absent) or not, mandatory or OPTIONAL-and-present, before / between / after a simple
    member that is mandatory, OPTIONAL present or OPTIONAL absent: the places where "leave out when empty" logic lives."""
    ys = [(('seqof', ('int',)), ('list', []), ('list', [('i', 1)])),
          (('setof', ('octs',)), ('list', []), ('list', [('o', b'a')])),
          (('seq', [('opt', ('int',))]), ('rec', [None]), ('rec', [('i', 5)])),
          (('set', [('opt', ('bool',)), ('opt', ('null',))]), ('rec', [None, None]), ('rec', [('b', True), None]))]
    xs = [('opt', ('i', 2)), ('opt', None), ('req', ('i', 2))]
    out, i = [], 0
    for kind in ('seq', 'set'):
        for (Ty, empty, full) in ys:
            for yv in (empty, full):
                for yp in ('req', 'opt'):
                    for (xp, xv) in xs:
                        for order in ('xyz', 'yxz', 'xzy'):
                            i += 1
                            if every > 1 and (i + ctx.seed) % every:
                                continue
                            m = {'x': ((xp, ('imp', (128, 0, 0), ('int',))), xv), 'y': ((yp, Ty), yv), 'z': (('req', ('octs',)), ('o', b'x'))}
                            fields = [m[k][0] for k in order]
                            vals = [m[k][1] for k in order]
                            try:
                                out.append(Case((kind, fields), ('rec', vals)))
                                ctx.stats['empty-member-grid:' + kind] += 1
                            except Exception:
                                ctx.stats['empty-member-grid-unbuildable'] += 1
    return out


def long_string_cases(ctx, every=1):
    """Strings longer than one or two CER segments (1000 contents octets; BIT STRING 999 octets of bits per segment) in
    the content shapes that matter to whoever cuts or re-assembles them: all zeros, a first segment of zeros then ones,
    ones then a last segment of zeros, a lone 1 bit right before / after the segment boundary; plain and under one tag."""
    shapes = []
    for nbits in (8000, 16000):
        z = [0] * nbits
        shapes.append(('bits all zero %d' % nbits, ('bits',), ('bits', tuple(z))))
        b = list(z); b[-8:] = [1] * 8; shapes.append(('bits zeros then ones %d' % nbits, ('bits',), ('bits', tuple(b))))
        b = list(z); b[:8] = [1] * 8; shapes.append(('bits ones then zeros %d' % nbits, ('bits',), ('bits', tuple(b))))
        for pos in (7991, 7992):
            b = list(z); b[pos] = 1; shapes.append(('bits lone 1 at %d of %d' % (pos, nbits), ('bits',), ('bits', tuple(b))))
    for n in (2500,):
        shapes.append(('octs all zero', ('octs',), ('o', b'\x00' * n)))
        shapes.append(('octs zeros then data', ('octs',), ('o', b'\x00' * 1000 + b'\x01' * (n - 1000))))
        shapes.append(('octs data then zeros', ('octs',), ('o', b'\x01' * 1000 + b'\x00' * (n - 1000))))
        shapes.append(('UTF8String long', ('str', 'UTF8String'), ('chars', 'ab' * (n // 2))))
    out = []
    for i, (what, T, v) in enumerate(shapes):
        if every > 1 and (i + ctx.seed) % every:
            continue
        for TT in (T, ('imp', (128, 0, 3), T), ('seq', [('opt', ('int',)), ('req', ('exp', (64, 0, 31), T))])):
            vv = v if TT[0] != 'seq' else ('rec', [None, v])
            try:
                out.append(Case(TT, vv)); ctx.stats['long-string:' + what.split(' ')[0]] += 1
            except Exception:
                ctx.stats['long-string-unbuildable'] += 1
    return out


def constrained_leaf_roundtrips(ctx, codecs=('BER', 'CER', 'DER')):
    """Types carrying a SIZE / value-range constraint, with values that satisfy it: BIT STRINGs whose length is not a
    multiple of 8 or exceeds one fragment, OCTET and character strings around the fragment sizes, INTEGER ranges; plain,
    IMPLICIT and EXPLICIT; as value objects and as plain Python values guided by the type; every encoder mode.  The encoder
    must accept the value and the decoder guided by the same constrained type must give it back with nothing left over
    (finding F70: padding / fragmenting a SIZE-constrained BIT STRING re-ran the constraint on the derived values).
    Reports through ctx.prop_fail; returns the number of round trips run."""
    from pyasn1.type import univ, char, constraint, tag
    from . import implrun as I
    leaves = []
    for n in (0, 1, 3, 7, 8, 9, 15, 17, 8001):
        bits = ''.join('1' if (i * 7 + n) % 3 else '0' for i in range(n))
        leaves.append(('BIT STRING (SIZE(%d))' % n, univ.BitString(subtypeSpec=constraint.ValueSizeConstraint(n, n)), bits))
    leaves.append(('BIT STRING (SIZE(2..9))', univ.BitString(subtypeSpec=constraint.ValueSizeConstraint(2, 9)), '10110'))
    for n in (0, 1, 5, 1001):
        leaves.append(('OCTET STRING (SIZE(%d))' % n, univ.OctetString(subtypeSpec=constraint.ValueSizeConstraint(n, n)), bytes((i * 5) % 256 for i in range(n))))
        leaves.append(('IA5String (SIZE(%d))' % n, char.IA5String(subtypeSpec=constraint.ValueSizeConstraint(n, n)), 'k' * n))
    leaves.append(('UTF8String (SIZE(3))', char.UTF8String(subtypeSpec=constraint.ValueSizeConstraint(3, 3)), 'aé中'))
    leaves.append(('INTEGER (-5..300)', univ.Integer(subtypeSpec=constraint.ValueRangeConstraint(-5, 300)), 256))
    leaves.append(('INTEGER (7)', univ.Integer(subtypeSpec=constraint.SingleValueConstraint(7)), 7))
    modes = {'BER': [dict(), dict(defMode=False), dict(maxChunkSize=1), dict(defMode=False, maxChunkSize=3), dict(maxChunkSize=1000)],
             'CER': [dict()], 'DER': [dict()]}
    n = 0
    for name, T0, pv in leaves:
        for tg, T in (('', T0), ('[2] IMPLICIT ', T0.subtype(implicitTag=tag.Tag(tag.tagClassContext, tag.tagFormatSimple, 2))),
                      ('[3] EXPLICIT ', T0.subtype(explicitTag=tag.Tag(tag.tagClassContext, tag.tagFormatConstructed, 3)))):
            try:
                v = T.clone(pv)
            except Exception as e:
                ctx.prop_fail('a value satisfying the constraint cannot be built', {'type': tg + name, 'error': repr(e)[:200]}); continue
            for cdc in codecs:
                for kw in modes[cdc]:
                    if not isinstance(pv, int) and len(pv) > 100 and kw.get('maxChunkSize') in (1, 3): continue
                    for how in ('object', 'python'):
                        n += 1
                        ctx.case(('constrained-leaf', tg + name, cdc, tuple(sorted(kw.items())), how), True)
                        e = I.run_encode(cdc, v, **kw) if how == 'object' else I.run_encode(cdc, pv, asn1Spec=T, **kw)
                        m = {'type': tg + name, 'codec': cdc, 'options': kw, 'given_as': how}
                        if e[0] != 'ok':
                            ctx.prop_fail('encoder refuses a value that satisfies the constraints of its type: %s' % e[2], m); continue
                        m['bytes'] = e[1][:64].hex()
                        d = I.run_decode(cdc, e[1], asn1Spec=T)
                        if d[0] != 'ok': ctx.prop_fail('decoder refuses the encoding of a constrained value: %s' % d[2], m)
                        elif d[2]:
                            # EXPLICIT tag over a primitive in an indefinite-length mode: the recorded finding F01
                            f01 = 'EXPLICIT' in tg and name.startswith('INTEGER') and (cdc == 'CER' or kw.get('defMode') is False)
                            ctx.prop_fail('octets left over after the encoding of a constrained value', m, finding='F01' if f01 else None)
                        elif not (d[1] == v): ctx.prop_fail('constrained value comes back different', m)
    return n


def long_tag_set_order_cases(ctx):
    """SETs whose members carry long-form tag numbers of DIFFERENT octet counts in one class (300 vs 20000, 16383 vs
    16384, 2097151 vs 2097152, ..): the canonical order is by tag NUMBER, which is not the bytewise order of the
    identifier octets (9F 82 2C < 9F 81 9C 20 numerically reversed).  Declared both ways, three classes."""
    pairs = [(30, 31), (127, 128), (300, 20000), (16383, 16384), (2097151, 2097152), (255, 2 ** 32), (129, 16385)]
    out = []
    for cls in (128, 64, 192):
        for a, b in pairs:
            for x, y in ((a, b), (b, a)):
                for third in (None, ('req', ('bool',))):
                    fs = [('req', ('imp', (cls, 0, x), ('int',))), ('req', ('exp', (cls, 0, y), ('octs',)))]
                    vs = [('i', 7), ('o', b'\x01')]
                    if third: fs.append(third); vs.append(('b', True))
                    try:
                        out.append(Case(('set', fs), ('rec', vs))); ctx.stats['long-tag-set-order'] += 1
                    except Exception:
                        ctx.stats['long-tag-set-order-unbuildable'] += 1
    return out


def mixed_form_sibling_cases(ctx):
    """Two strings of one type under the SAME (explicit) tags in one encoding, one long enough to be segmented by CER (or
    by a caller's chunk size), the other short and looking like a TLV itself; long first and short first; as elements
    of a SEQUENCE OF, as members of a SEQUENCE, and at two nesting levels.  Anything remembered per tag within one
    decode (a tag or tag-set memo that forgets the primitive/constructed form) shows here and nowhere else."""
    out = []
    kinds = [(('octs',), ('o', bytes((i * 7) % 251 for i in range(1001))), ('o', b'\x04\x01A')),
             (('octs',), ('o', b'abcdefghij'), ('o', b'\x04\x00')),
             (('str', 'UTF8String'), ('chars', 'xy' * 501), ('chars', '\x0c\x01z')),
             (('bits',), ('bits', tuple((i % 3 == 0) * 1 for i in range(8008))), ('bits', (0, 0, 0, 0, 0, 0, 1, 1, 0, 0, 0, 0, 0, 0, 0, 1)))]
    for T0, lng, sht in kinds:
        for E in (T0, ('exp', (128, 0, 1), T0), ('exp', (64, 0, 40), ('exp', (128, 0, 0), T0))):
            for first, second in ((lng, sht), (sht, lng)):
                for TT, vv in ((('seqof', E), ('list', [first, second])),
                               (('seqof', E), ('list', [first, second, first])),
                               (('seq', [('req', E), ('req', E)]), ('rec', [first, second])),
                               (('seq', [('req', E), ('req', ('seqof', E))]), ('rec', [first, ('list', [second, first])]))):
                    try:
                        out.append(Case(TT, vv)); ctx.stats['mixed-form-siblings'] += 1
                    except Exception:
                        ctx.stats['mixed-form-siblings-unbuildable'] += 1
    return out


def default_constructed_cases(ctx):
    """DEFAULT components of constructed type whose default value itself holds constructed members (a SEQUENCE with a
    SEQUENCE OF, a SET OF of SEQUENCEs, a CHOICE of a list): the value equal to the default (left out on the wire and
    re-created by whoever reads it back) and values differing one or two levels down."""
    inner = ('seq', [('req', ('str', 'IA5String')), ('req', ('seqof', ('int',)))])
    d1 = ('rec', [('chars', 'std'), ('list', [('i', 80), ('i', 443)])])
    lst = ('seqof', ('seq', [('req', ('int',)), ('req', ('seqof', ('octs',)))]))
    d2 = ('list', [('rec', [('i', 1), ('list', [('o', b'a'), ('o', b'b')])]), ('rec', [('i', 2), ('list', [])])])
    out = []
    for kind in ('seq', 'set'):
        for ft, dv, others in ((inner, d1, [('rec', [('chars', 'std'), ('list', [('i', 80)])]), ('rec', [('chars', 'st'), ('list', [('i', 80), ('i', 443)])]), ('rec', [('chars', 'std'), ('list', [])])]),
                               (lst, d2, [('list', []), ('list', [('rec', [('i', 1), ('list', [('o', b'a')])])])])):
            for tagging in (lambda t: t, lambda t: ('exp', (128, 0, 5), t), lambda t: ('imp', (128, 0, 6), t)):
                T = (kind, [(('def', dv), tagging(ft)), ('req', ('int',))])
                for v in [None, dv] + others:
                    try:
                        out.append(Case(T, ('rec', [v, ('i', 9)]))); ctx.stats['default-constructed'] += 1
                    except Exception:
                        ctx.stats['default-constructed-unbuildable'] += 1
    return out


def tagged_choice_in_choice_cases(ctx):
    """An untagged CHOICE whose alternative is a TAGGED CHOICE, held by something that places members by tag (a SET, a run
    of OPTIONAL members of a SEQUENCE, an outer CHOICE), next to a sibling whose own tag equals the tag of the INNER
    CHOICE's leaf: the tag on the wire is the inner CHOICE's [n], never the leaf's, so the value belongs to the CHOICE
    member and the sibling is a different member (the effective tag of a CHOICE stops at a tagged CHOICE)."""
    out = []
    for tg in (lambda t: ('exp', (128, 0, 0), t), lambda t: ('exp', (64, 0, 33), t)):
        inner = tg(('choice', [('int',), ('octs',)]))
        outer = ('choice', [inner, ('bool',)])
        for alt, leaf in ((0, ('i', 5)), (1, ('o', b'xy'))):
            cv = ('ch', 0, ('ch', alt, leaf))
            sib_t, sib_v = (('int',), ('i', 7)) if alt == 0 else (('octs',), ('o', b'k'))
            shapes = [(('set', [('opt', outer), ('req', sib_t)]), [('rec', [cv, sib_v]), ('rec', [None, sib_v])]),
                      (('set', [('req', sib_t), ('req', outer)]), [('rec', [sib_v, cv]), ('rec', [sib_v, ('ch', 1, ('b', True))])]),
                      (('seq', [('opt', outer), ('opt', sib_t), ('req', ('null',))]), [('rec', [cv, sib_v, ('null',)]), ('rec', [cv, None, ('null',)]), ('rec', [None, sib_v, ('null',)])]),
                      (('choice', [outer, sib_t]), [('ch', 0, cv), ('ch', 1, sib_v)])]
            for T, vs in shapes:
                for v in vs:
                    try:
                        out.append(Case(T, v)); ctx.stats['tagged-choice-in-choice'] += 1
                    except Exception:
                        ctx.stats['tagged-choice-in-choice-unbuildable'] += 1
    return out

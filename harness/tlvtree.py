"""A small TLV tree for well-formed BER: parse, edit structurally, write back (lengths recomputed, the
definite/indefinite form of every constructed node kept).  Independent of pyasn1."""


class Node(object):
    __slots__ = ('ident', 'cons', 'indef', 'kids', 'content')

    def __init__(self, ident, cons, indef, kids, content):
        self.ident, self.cons, self.indef, self.kids, self.content = ident, cons, indef, kids, content

    def copy(self):
        return Node(self.ident, self.cons, self.indef, [k.copy() for k in self.kids] if self.kids is not None else None, self.content)


def _parse_one(b, i, depth):
    start = i
    if i >= len(b): raise ValueError('eof')
    first = b[i]; i += 1
    if first & 0x1f == 0x1f:
        while True:
            if i >= len(b): raise ValueError('eof')
            o = b[i]; i += 1
            if not o & 0x80: break
    ident = bytes(b[start:i])
    if i >= len(b): raise ValueError('eof')
    l = b[i]; i += 1
    cons = bool(first & 0x20)
    if l == 0x80:
        if not cons: raise ValueError('indefinite primitive')
        kids = []
        while True:
            if b[i:i + 2] == b'\x00\x00':
                return Node(ident, True, True, kids, None), i + 2
            k, i = _parse_one(b, i, depth + 1)
            kids.append(k)
    if l & 0x80:
        n = l & 0x7f
        if i + n > len(b): raise ValueError('eof')
        l = int.from_bytes(b[i:i + n], 'big'); i += n
    if i + l > len(b): raise ValueError('eof')
    body = bytes(b[i:i + l])
    if cons:
        kids, j = [], 0
        try:
            while j < len(body):
                k, j = _parse_one(body, j, depth + 1)
                kids.append(k)
            return Node(ident, True, False, kids, None), i + l
        except (ValueError, IndexError):
            pass                                  # contents that are no TLV run: kept as they are
    return Node(ident, cons, False, None, body), i + l


def parse(b):
    """the TLV tree of one complete encoding; ValueError when it is not one"""
    try:
        n, i = _parse_one(b, 0, 0)
    except IndexError:
        raise ValueError('eof')
    if i != len(b):
        raise ValueError('trailing octets')
    return n


def write(n):
    body = b''.join(write(k) for k in n.kids) if n.kids is not None else n.content
    if n.indef:
        return n.ident + b'\x80' + body + b'\x00\x00'
    l = len(body)
    if l < 128:
        return n.ident + bytes([l]) + body
    lb = l.to_bytes((l.bit_length() + 7) // 8, 'big')
    return n.ident + bytes([0x80 | len(lb)]) + lb + body


def constructed_nodes(n, path=()):
    if n.kids is not None:
        yield path, n
        for i, k in enumerate(n.kids):
            for x in constructed_nodes(k, path + (i,)):
                yield x


def _at(root, path):
    n = root
    for i in path:
        n = n.kids[i]
    return n


EXTRA = [bytes.fromhex(h) for h in ('0500', '020105', '0400', '3000', '30800000', 'a003020101', '0101ff', '8500')]


def structural_edits(root):
    """every single structural edit of the tree: at each constructed node, an extra member at the front / at the end
    (a copy of a member and each of a few foreign TLVs), a member removed, a member repeated, two neighbours swapped, the
    node emptied; (what, encoding) pairs"""
    out = []
    for path, _ in list(constructed_nodes(root)):
        n0 = _at(root, path)
        nk = len(n0.kids)
        def edit(f, what):
            r = root.copy()
            f(_at(r, path))
            out.append(('%s at %s' % (what, '/'.join(map(str, path)) or 'top'), write(r)))
        for x in EXTRA:
            xn = parse(x)
            edit(lambda n: n.kids.append(xn.copy()), 'extra member %s at the end' % x.hex())
            edit(lambda n: n.kids.insert(0, xn.copy()), 'extra member %s in front' % x.hex())
        for i in range(nk):
            edit(lambda n: n.kids.pop(i), 'member %d removed' % i)
            edit(lambda n: n.kids.insert(i, n.kids[i].copy()), 'member %d repeated' % i)
            edit(lambda n: n.kids.append(n.kids[i].copy()), 'member %d repeated at the end' % i)
            if i + 1 < nk:
                edit(lambda n: n.kids.__setitem__(slice(i, i + 2), [n.kids[i + 1], n.kids[i]]), 'members %d, %d swapped' % (i, i + 1))
        if nk:
            edit(lambda n: n.kids.__setitem__(slice(0, nk), []), 'emptied')
        edit(lambda n: setattr(n, 'indef', not n.indef), 'length form switched')
    return out

"""Container objects under operation histories: shared helpers for C19 (and C04/C12).

A *kind* describes one container type under test and knows how to
  make()            build a fresh real pyasn1 object
  apply(obj, op)    run one operation of the public API on it  -> (obj', outcome)
  snapshot(obj)     read the concrete state by walking `_componentValues` (never __eq__/prettyPrint)
  proto_init()/proto_step(P, op)   drive the plain Python list / dict / option prototype
  observe(obj), proto_observe(P)   abstract content, len, isValue of either side
  coq_*             print operations, outcomes and snapshots as literals of coq/Model/Container.v
  gen_op(rng, P, wild)             draw the next operation (valid and invalid arguments)

Operations are tuples whose head is the constructor name of the Coq `sop` / `rop` type.
Values:   ('PInt', z) | ('PAsn', z) | ('PSub', z) (a value object of the refined type INTEGER (0..9)) | ('PBad',) | ('PBadAsn',)
Slots:    None (noValue) | ('CVal', z) | 'CSchema'
Outcomes: ('ORet',) ('OSlot', s) ('OSlots', [s]) ('OBool', b) ('ONat', n) ('ONats', [n])
          ('OItems', [(n, s)]) ('OBytes', bytes) ('ORaise', errclass)
"""
from harness import coqio
from pyasn1.type import univ, namedtype, tag, base, constraint
from pyasn1 import error
from pyasn1.codec.der import encoder as der_encoder

noValue = univ.noValue
RET = ('ORet',)
# SmallInt ::= INTEGER (0..9): a refined type whose values SEQUENCE OF INTEGER accepts as members
SMALL = univ.Integer().subtype(subtypeSpec=constraint.ValueRangeConstraint(0, 9))

CRASHES = [('IndexError', IndexError), ('KeyError', KeyError), ('AttributeError', AttributeError),
           ('TypeError', TypeError), ('ValueError', ValueError), ('OverflowError', OverflowError),
           ('RecursionError', RecursionError), ('RuntimeError', RuntimeError)]


def err_class(e):
    """exception -> error class of the model (messages are never compared)"""
    if isinstance(e, error.PyAsn1Error):
        return 'ELib'
    for name, cls in CRASHES:
        if type(e) is cls:
            return name
    for name, cls in CRASHES:
        if isinstance(e, cls):
            return name
    return 'Other:' + type(e).__name__


def is_lookup_or_library(cls):
    return cls in ('ELib', 'IndexError', 'KeyError')


def canon_comp(c):
    if c is noValue:
        return None
    if isinstance(c, univ.Integer):
        v = c._value
        return 'CSchema' if v is noValue else ('CVal', int(v))
    return ('Foreign', type(c).__name__)


def call(f):
    """run f() on the implementation -> outcome"""
    try:
        return f()
    except Exception as e:  # noqa
        return ('ORaise', err_class(e))


# ---------------------------------------------------------------------------------------------
# Coq literals

def c_val(v):
    if v is None:
        return 'None'
    if v[0] in ('PInt', 'PAsn'):
        return '(%s %s)' % (v[0], coqio.cZ(v[1]))
    if v[0] == 'PSub':
        return '(PAsn %s)' % coqio.cZ(v[1])
    return v[0]


def c_oval(v):
    return 'None' if v is None else '(Some %s)' % c_val(v)


def c_slot(s):
    if s is None:
        return 'None'
    if s == 'CSchema':
        return '(Some CSchema)'
    if s[0] == 'CVal':
        return '(Some (CVal %s))' % coqio.cZ(s[1])
    raise ValueError(s)


def c_comp(c):
    return 'CSchema' if c == 'CSchema' else '(CVal %s)' % coqio.cZ(c[1])


def c_err(cls):
    if cls == 'ELib':
        return 'EMalformed'
    if cls in [n for n, _ in CRASHES]:
        return '(ECrash %s)' % cls
    return 'EOutOfFuel'       # an exception class the model never produces: always a disagreement


def c_out(o):
    t = o[0]
    if t == 'ORet':
        return 'ORet'
    if t == 'OSlot':
        return '(OSlot %s)' % c_slot(o[1])
    if t == 'OSlots':
        return '(OSlots %s)' % coqio.clist([c_slot(x) for x in o[1]])
    if t == 'OBool':
        return '(OBool %s)' % coqio.cbool(o[1])
    if t == 'ONat':
        return '(ONat %s)' % coqio.cnat(o[1])
    if t == 'ONats':
        return '(ONats %s)' % coqio.clist([coqio.cnat(x) for x in o[1]])
    if t == 'OItems':
        return '(OItems %s)' % coqio.clist(['(%s, %s)' % (coqio.cnat(k), c_slot(s)) for k, s in o[1]])
    if t == 'OBytes':
        return '(OBytes %s)' % coqio.cbytes(o[1])
    if t == 'ORaise':
        return '(ORaise %s)' % c_err(o[1])
    raise ValueError(o)


def c_key(k):
    return '(KPos %s)' % coqio.cZ(k[1]) if k[0] == 'KPos' else '(KName %s)' % coqio.cnat(k[1])


def c_kop(op):
    """operations of Proofs/ContainerSortKey.v: the keyed sort, or a plain operation of Model/Container.v"""
    if op[0] == 'SSortKey':
        return '(SortKey %s %s)' % (coqio.cZ(op[1]), coqio.cbool(op[2]))
    return '(Plain %s)' % c_op(op)


def c_op(op):
    t, a = op[0], op[1:]
    if t in ('SSetItem',):
        return '(SSetItem %s %s)' % (coqio.cZ(a[0]), c_val(a[1]))
    if t == 'SSetPos':
        return '(SSetPos %s %s)' % (coqio.cZ(a[0]), c_oval(a[1]))
    if t == 'SSetSlice':
        return '(SSetSlice %s %s %s)' % (coqio.cnat(a[0]), coqio.cnat(a[1]), coqio.clist([c_val(v) for v in a[2]]))
    if t == 'SAppend':
        return '(SAppend %s)' % c_val(a[0])
    if t == 'SExtend':
        return '(SExtend %s)' % coqio.clist([c_val(v) for v in a[0]])
    if t in ('SSort', 'SClone', 'RClone'):
        return '(%s %s)' % (t, coqio.cbool(a[0]))
    if t in ('SIn', 'SCount', 'SIndex', 'SGetItem'):
        return '(%s %s)' % (t, coqio.cZ(a[0]))
    if t == 'SGetPos':
        return '(SGetPos %s %s)' % (coqio.cZ(a[0]), coqio.cbool(a[1]))
    if t == 'SGetSlice':
        return '(SGetSlice %s %s)' % (coqio.cnat(a[0]), coqio.cnat(a[1]))
    if t in ('SEq', 'REq'):
        return '(%s %s)' % (t, coqio.clist([coqio.cZ(z) for z in a[0]]))
    if t == 'RSetItem':
        return '(RSetItem %s %s)' % (c_key(a[0]), c_val(a[1]))
    if t == 'RSetPos':
        return '(RSetPos %s %s)' % (coqio.cZ(a[0]), c_oval(a[1]))
    if t in ('RSetName', 'RSetType'):
        return '(%s %s %s)' % (t, coqio.cnat(a[0]), c_oval(a[1]))
    if t == 'RIn':
        return '(RIn %s)' % coqio.cnat(a[0])
    if t == 'RGetItem':
        return '(RGetItem %s)' % c_key(a[0])
    if t == 'RGetPos':
        return '(RGetPos %s %s)' % (coqio.cZ(a[0]), coqio.cbool(a[1]))
    if t in ('RGetName', 'RGetType'):
        return '(%s %s %s)' % (t, coqio.cnat(a[0]), coqio.cbool(a[1]))
    if not a:
        return t
    raise ValueError(op)


# ---------------------------------------------------------------------------------------------
# an independent DER of INTEGER components (the prototype's encoding)

def der_len(n):
    if n < 128:
        return bytes([n])
    b = n.to_bytes((n.bit_length() + 7) // 8, 'big')
    return bytes([0x80 | len(b)]) + b


def der_int(tagoctet, z):
    m = z if z >= 0 else -z - 1
    body = z.to_bytes(m.bit_length() // 8 + 1, 'big', signed=True)
    return bytes([tagoctet]) + der_len(len(body)) + body


def der_cons(tagoctet, chunks):
    body = b''.join(chunks)
    return bytes([tagoctet]) + der_len(len(body)) + body


VALUES = [0, 1, -1, 2, 3, 5, 7, 9, 11, 21, 41, 12, 22, 127, 128, 255, 256, -128, -129, 300, 65535, -32768, 2 ** 31, -2 ** 31 - 1]


def gen_z(rng):
    return rng.choice(VALUES) if rng.random() < 0.85 else rng.randrange(-2 ** 40, 2 ** 40)


def gen_goodval(rng, asn_only=False):
    return ('PAsn' if asn_only or rng.random() < 0.3 else 'PInt', gen_z(rng))


# ---------------------------------------------------------------------------------------------
# SEQUENCE OF / SET OF

class SeqOfKind(object):
    family = 'sof'

    def __init__(self, ct, isset):
        self.ct, self.isset = ct, isset
        self.name = ('SetOf' if isset else 'SequenceOf') + ('(Integer)' if ct else '()')
        self.cls = univ.SetOf if isset else univ.SequenceOf

    def make(self):
        return self.cls(componentType=univ.Integer()) if self.ct else self.cls()

    def val(self, v):
        if v is None:
            return noValue
        return {'PInt': lambda: v[1], 'PAsn': lambda: univ.Integer(v[1]), 'PSub': lambda: SMALL.clone(v[1]), 'PBad': lambda: 'x',
                'PBadAsn': lambda: univ.OctetString('x')}[v[0]]()

    # -- implementation
    def apply(self, obj, op):
        t, a = op[0], op[1:]
        slots = lambda l: ('OSlots', [canon_comp(c) for c in l])
        if t == 'SSetItem':
            obj[a[0]] = self.val(a[1]); return obj, RET
        if t == 'SSetPos':
            if a[1] is None:
                obj.setComponentByPosition(a[0])
            else:
                obj.setComponentByPosition(a[0], self.val(a[1]))
            return obj, RET
        if t == 'SSetSlice':
            obj[a[0]:a[1]] = [self.val(v) for v in a[2]]; return obj, RET
        if t == 'SAppend':
            obj.append(self.val(a[0])); return obj, RET
        if t == 'SExtend':
            obj.extend([self.val(v) for v in a[0]]); return obj, RET
        if t == 'SSort':
            obj.sort(reverse=a[0]); return obj, RET
        if t == 'SReverse':
            obj.reverse(); return obj, RET
        if t == 'SSortKey':
            m = a[0]
            obj.sort(key=lambda x: int(x) % m, reverse=a[1]); return obj, RET
        if t == 'SClear':
            obj.clear(); return obj, RET
        if t == 'SReset':
            obj.reset(); return obj, RET
        if t == 'SClone':
            return obj.clone(cloneValueFlag=a[0]), RET
        if t == 'SLen':
            return obj, ('ONat', len(obj))
        if t == 'SIter':
            return obj, slots(list(iter(obj)))
        if t == 'SIn':
            return obj, ('OBool', bool(a[0] in obj))
        if t == 'SGetItem':
            return obj, ('OSlot', canon_comp(obj[a[0]]))
        if t == 'SGetPos':
            return obj, ('OSlot', canon_comp(obj.getComponentByPosition(a[0], instantiate=a[1])))
        if t == 'SGetSlice':
            return obj, slots(obj[a[0]:a[1]])
        if t == 'SCount':
            return obj, ('ONat', obj.count(a[0]))
        if t == 'SIndex':
            return obj, ('ONat', obj.index(a[0]))
        if t == 'SPretty':
            r = obj.prettyPrint()
            assert isinstance(r, str)
            return obj, RET
        if t == 'SEq':
            return obj, ('OBool', bool(obj == list(a[0])))
        if t == 'SIsValue':
            return obj, ('OBool', bool(obj.isValue))
        if t == 'SEncode':
            return obj, ('OBytes', bytes(der_encoder.encode(obj)))
        raise ValueError(op)

    def post_check(self, obj, op, out, before):
        """a bare Python value stored at a position is cast by the DECLARED component type, whatever was there before"""
        if not self.ct or out != RET:
            return None
        t, a = op[0], op[1:]
        cv = obj._componentValues
        n = 0 if not before else max(k for k, _ in before) + 1
        where = []
        if t in ('SSetItem', 'SSetPos') and a[1] is not None and a[1][0] == 'PInt':
            where = [a[0] if a[0] >= 0 else n + a[0]]
        elif t == 'SAppend' and a[0][0] == 'PInt':
            where = [len(before or [])]
        elif t == 'SExtend':
            where = [len(before or []) + j for j, v in enumerate(a[0]) if v[0] == 'PInt']
        for k in where:
            e = cv.get(k, noValue) if cv is not noValue else noValue
            if e is noValue:
                continue
            ct = obj.componentType
            if e.tagSet != ct.tagSet or e.subtypeSpec != ct.subtypeSpec or not e.isSameTypeWith(ct):
                return 'the member stored by a bare assignment at position %d does not have the declared component type' % k
        return None

    def snapshot(self, obj):
        cv = obj._componentValues
        if cv is noValue:
            return None
        return [(k, canon_comp(c)) for k, c in cv.items()]

    def modelled(self, snap):
        return snap is None or all(c is not None and c != () and (c == 'CSchema' or c[0] == 'CVal') for _, c in snap)

    def c_snap(self, snap):
        if snap is None:
            return 'None'
        return '(Some %s)' % coqio.clist(['(%s, %s)' % (coqio.cnat(k), c_comp(c)) for k, c in snap])

    def observe(self, obj, snap):
        """abstract content (None = schema; a list of ints; or ('irregular', ..) when the concrete state
        is not a list: holes, placeholders), len, isValue"""
        if snap is None:
            content = None
        elif [k for k, _ in snap] == list(range(len(snap))) and all(c != 'CSchema' and c is not None and c[0] == 'CVal' for _, c in snap):
            content = [c[1] for _, c in snap]
        else:
            content = ('irregular', sorted(snap, key=lambda kc: kc[0]))
        return {'content': content, 'len': call(lambda: len(obj)), 'isValue': call(lambda: bool(obj.isValue))}

    # -- prototype: None (not a value) or a plain Python list of ints
    def proto_init(self):
        return None

    def proto_observe(self, P):
        return {'content': None if P is None else list(P), 'len': 0 if P is None else len(P), 'isValue': P is not None}

    def _good(self, v, existing):
        """can the container take v at a position that is / is not occupied"""
        if v is None:
            return None
        if v[0] in ('PAsn', 'PSub'):
            return True
        if v[0] == 'PInt':
            return True if (self.ct or existing) else False
        if v[0] == 'PBad':
            return False
        return False if self.ct else None          # PBadAsn without a declared type: accepted, not modelled

    def proto_step(self, P, op):
        """-> ('wf', P', outcome) | ('ill',) | ('undef',)"""
        t, a = op[0], op[1:]
        L = [] if P is None else P
        n = len(L)
        cv = lambda z: ('CVal', z)
        if t in ('SSetItem', 'SSetPos'):
            i, v = a
            k = i if i >= 0 else n + i
            if k < 0 or k > n:
                return ('ill',)
            g = self._good(v, k < n)
            if g is None:
                return ('undef',)
            if not g:
                return ('ill',)
            L = list(L)
            if k == n:
                L.append(v[1])
            else:
                L[k] = v[1]
            return ('wf', L, RET)
        if t == 'SSetSlice':
            lo, hi, vs = a
            lo2 = min(lo, n); hi2 = max(lo2, min(hi, n))
            gs = [self._good(v, lo2 + j < n) for j, v in enumerate(vs)]
            if None in gs:
                return ('undef',)
            if False in gs:
                return ('ill',)
            if P is None and not vs:
                return ('wf', None, RET)
            L = list(L)
            L[lo:hi] = [v[1] for v in vs]
            return ('wf', L, RET)
        if t in ('SAppend', 'SExtend'):
            vs = [a[0]] if t == 'SAppend' else a[0]
            gs = [self._good(v, False) for v in vs]
            if None in gs:
                return ('undef',)
            if False in gs:
                return ('ill',)
            return ('wf', list(L) + [v[1] for v in vs], RET)
        if t == 'SSort':
            return ('ill',) if P is None else ('wf', sorted(L, reverse=a[0]), RET)
        if t == 'SReverse':
            return ('ill',) if P is None else ('wf', list(reversed(L)), RET)
        if t == 'SSortKey':
            # Python's list.sort is stable in both directions: ties keep their order, also with reverse=True
            return ('ill',) if P is None else ('wf', sorted(L, key=lambda x: x % a[0], reverse=a[1]), RET)
        if t == 'SClear':
            return ('wf', [], RET)
        if t == 'SReset':
            return ('wf', None, RET)
        if t == 'SClone':
            return ('wf', (None if P is None else list(P)) if a[0] else None, RET)
        if t == 'SLen':
            return ('wf', P, ('ONat', n))
        if t == 'SIter':
            return ('wf', P, ('OSlots', [cv(z) for z in L]))
        if t == 'SIn':
            return ('wf', P, ('OBool', a[0] in L))
        if t in ('SGetItem', 'SGetPos'):
            i = a[0]
            k = i if i >= 0 else n + i
            if 0 <= k < n:
                return ('wf', P, ('OSlot', cv(L[k])))
            if t == 'SGetPos' and not a[1] and k >= 0:
                return ('wf', P, ('OSlot', None))          # documented: noValue is returned
            return ('ill',)
        if t == 'SGetSlice':
            return ('wf', P, ('OSlots', [cv(z) for z in L[a[0]:a[1]]]))
        if t == 'SCount':
            return ('ill',) if P is None else ('wf', P, ('ONat', L.count(a[0])))
        if t == 'SIndex':
            if P is None:
                return ('ill',)
            return ('wf', P, ('ONat', L.index(a[0])) if a[0] in L else ('ORaise', 'ValueError'))
        if t == 'SPretty':
            return ('wf', P, RET)
        if t == 'SEq':
            return ('ill',) if P is None else ('wf', P, ('OBool', L == list(a[0])))
        if t == 'SIsValue':
            return ('wf', P, ('OBool', P is not None))
        if t == 'SEncode':
            if P is None:
                return ('undef',)
            chunks = [der_int(2, z) for z in L]
            if self.isset and len(chunks) > 1:
                m = max(map(len, chunks))
                chunks.sort(key=lambda c: c.ljust(m, b'\x00'))
            return ('wf', P, ('OBytes', der_cons(0x31 if self.isset else 0x30, chunks)))
        raise ValueError(op)

    def is_reader(self, op):
        return op[0] in ('SLen', 'SIter', 'SIn', 'SGetItem', 'SGetPos', 'SGetSlice', 'SCount', 'SIndex',
                         'SPretty', 'SEq', 'SIsValue', 'SEncode')

    # -- class predicates of the recorded findings (computable on the operation and the prototype)
    def finding_class(self, P, op):
        t, a = op[0], op[1:]
        n = 0 if P is None else len(P)
        if t in ('SGetItem', 'SGetPos') and self.ct and (t == 'SGetItem' or a[1]):
            k = a[0] if a[0] >= 0 else n + a[0]
            if k >= n:
                return 'F18d'
        if t in ('SSetItem', 'SSetPos'):
            k = a[0] if a[0] >= 0 else n + a[0]
            if k > n:
                return 'F18d'
        if t == 'SSetSlice':
            lo, hi, vs = a
            lo2 = min(lo, n); hi2 = min(hi, n)
            same = n == 0 or (lo2 < hi2 and (lo2 + len(vs) == hi2 or (hi2 == n and lo2 + len(vs) >= n)))
            goods = [self._good(v, lo2 + j < n) for j, v in enumerate(vs)]
            if not same or (False in goods[1:]):
                return 'F18i'
        if t == 'SExtend' and False in [self._good(v, False) for v in a[0]][1:]:
            return 'F18i'
        return None

    # -- generator
    def gen_op(self, rng, P, wild):
        for _ in range(20):
            op = self.gen_any(rng, P)
            if wild or (self.finding_class(P, op) is None and op != ('SSetPos', op[1] if len(op) > 1 else 0, None)):
                return op
        return ('SLen',)

    def gen_any(self, rng, P):
        n = 0 if P is None else len(P)
        gv = lambda existing=False: gen_goodval(rng, not self.ct and not existing)
        present = lambda: rng.choice(P) if P and rng.random() < 0.7 else gen_z(rng)

        def pos(hi):
            """a position: mostly within [-n, hi], sometimes just outside, rarely far outside"""
            r = rng.random()
            if r < 0.78 and hi + n >= 0:
                return rng.randrange(-n, hi + 1)
            if r < 0.92:
                return rng.choice([hi + 1, -n - 1])
            return rng.choice([hi + 2, hi + 5, -n - 3])

        def value_at(k):
            if self.ct and rng.random() < 0.2:
                return ('PSub', rng.randrange(10))       # a member of a refined type; later bare overwrites must not inherit it
            if rng.random() < 0.9:
                return gv(0 <= k < n)
            return rng.choice([('PBad',), ('PBadAsn',)]) if self.ct else ('PBad',)

        if rng.random() < 0.42:    # mutators
            c = rng.random()
            if c < 0.22:
                return ('SAppend', value_at(n))
            if c < 0.32:
                vs = [(('PSub', rng.randrange(10)) if self.ct and rng.random() < 0.2 else gv()) for _ in range(rng.randrange(0, 4))]
                if rng.random() < 0.1:
                    vs.insert(rng.choice([0, 0, len(vs)]), ('PBad',))
                return ('SExtend', vs)
            if c < 0.55:
                i = pos(n)
                v = value_at(i if i >= 0 else n + i)
                return ('SSetItem', i, v) if rng.random() < 0.5 else ('SSetPos', i, v)
            if c < 0.66:
                if n == 0 or rng.random() < 0.3:
                    lo = rng.randrange(0, n + 2); hi = rng.randrange(0, n + 3)
                    cnt = rng.randrange(0, 4)
                else:
                    lo = rng.randrange(0, n); hi = rng.randrange(lo + 1, n + 1)
                    cnt = hi - lo
                    if hi == n and rng.random() < 0.4:
                        hi = rng.choice([n, n + 3]); cnt += rng.randrange(0, 3)
                start = 0 if n == 0 else min(lo, n)
                vs = [gv(start + j < n) for j in range(cnt)]
                if vs and rng.random() < 0.06:
                    vs[rng.choice([0, len(vs) - 1])] = ('PBad',)
                return ('SSetSlice', lo, hi, vs)
            if c < 0.72:
                return ('SSort', rng.random() < 0.3)
            if c < 0.79:
                return ('SSortKey', rng.choice([10, 10, 3, 2, 7]), rng.random() < 0.6)
            if c < 0.84:
                return ('SReverse',)
            if c < 0.89:
                return ('SClear',)
            if c < 0.93:
                return ('SReset',)
            if c < 0.985:
                return ('SClone', rng.random() < 0.75)
            return ('SSetPos', pos(n), None)
        c = rng.random()
        if c < 0.1:
            return ('SLen',)
        if c < 0.2:
            return ('SIter',)
        if c < 0.3:
            return ('SIn', present())
        if c < 0.5:
            i = pos(n - 1)
            return ('SGetItem', i) if rng.random() < 0.5 else ('SGetPos', i, rng.random() < 0.6)
        if c < 0.57:
            lo = rng.randrange(0, n + 2)
            return ('SGetSlice', lo, rng.randrange(lo, n + 3))
        if c < 0.64:
            return ('SCount', present())
        if c < 0.71:
            return ('SIndex', present())
        if c < 0.75:
            return ('SPretty',)
        if c < 0.82:
            l = list(P or [])
            if l and rng.random() < 0.4:
                l[rng.randrange(len(l))] += 1
            elif rng.random() < 0.2:
                l.append(1)
            return ('SEq', l)
        if c < 0.9:
            return ('SIsValue',)
        return ('SEncode',)

    def coq_check(self, ops, trace):
        return 'sofk_check %s %s %s %s' % (coqio.cbool(self.ct), coqio.cbool(self.isset),
                                          coqio.clist([c_kop(o) for o in ops]),
                                          coqio.clist(['(%s, %s)' % (c_out(o), self.c_snap(s)) for o, s in trace]))

    def coq_first_bad(self, ops, trace):
        return 'sofk_first_bad %s %s None %s %s 0%%nat' % (
            coqio.cbool(self.ct), coqio.cbool(self.isset), coqio.clist([c_kop(o) for o in ops]),
            coqio.clist(['(%s, %s)' % (c_out(o), self.c_snap(s)) for o, s in trace]))

    def c_proto(self, P):
        return 'None' if P is None else '(Some %s)' % coqio.clist([coqio.cZ(z) for z in P])

    def coq_spec_check(self, ops, ptrace):
        tr = coqio.clist(['None' if e is None else '(Some (%s, %s))' % (self.c_proto(e[0]), c_out(e[1])) for e in ptrace])
        return 'lk_spec_check %s %s None %s %s' % (coqio.cbool(self.ct), coqio.cbool(self.isset),
                                                  coqio.clist([c_kop(o) for o in ops]), tr)

    def coq_run(self, ops):
        return 'sofk_run %s %s None %s' % (coqio.cbool(self.ct), coqio.cbool(self.isset), coqio.clist([c_kop(o) for o in ops]))


# ---------------------------------------------------------------------------------------------
# SEQUENCE / SET / CHOICE with declared INTEGER components

def _ctx(n):
    return tag.Tag(tag.tagClassContext, tag.tagFormatSimple, n)


class RecKind(object):
    """fields: list of (name, kind, default, tag) with kind in 'req' 'opt' 'def';
    tag = None (UNIVERSAL INTEGER) or a context number (IMPLICIT)"""
    family = 'rec'

    def __init__(self, isset, fields, name):
        self.isset, self.fields, self.name = isset, fields, name
        self.N = len(fields)
        nts = []
        for nm, kind, dflt, tg in fields:
            t = univ.Integer() if dflt is None else univ.Integer(dflt)
            if tg is not None:
                t = t.subtype(implicitTag=_ctx(tg))
            nts.append({'req': namedtype.NamedType, 'opt': namedtype.OptionalNamedType,
                        'def': namedtype.DefaultedNamedType}[kind](nm, t))
        self.componentType = namedtype.NamedTypes(*nts)
        self.types = [nt.asn1Object for nt in nts]
        self.base = self.base_class()
        self.cls = type(name, (self.base,), {'componentType': self.componentType})
        self.defaults = {k: f[2] for k, f in enumerate(fields) if f[1] == 'def'}

    def base_class(self):
        return univ.Set if self.isset else univ.Sequence

    def make(self):
        return self.cls()

    def tagoctet(self, k):
        tg = self.fields[k][3]
        return 2 if tg is None else 0x80 | tg

    def tagkey(self, k):
        tg = self.fields[k][3]
        return (0, 2) if tg is None else (128, tg)

    def norm(self, i):
        """declared position addressed by i (Python indexing), or None"""
        if -self.N <= i < self.N:
            return i % self.N
        return None

    def key_pos(self, key):
        if key[0] == 'KPos':
            return self.norm(key[1])
        return key[1] if key[1] < self.N else None

    def val(self, v, k):
        if v is None:
            return noValue
        if v[0] == 'PInt':
            return v[1]
        if v[0] == 'PAsn':
            return self.types[k].clone(v[1]) if k is not None else univ.Integer(v[1])
        return 'x' if v[0] == 'PBad' else univ.OctetString('x')

    def pykey(self, key):
        return key[1] if key[0] == 'KPos' else self.pyname(key[1])

    def pyname(self, n):
        return self.fields[n][0] if n < self.N else 'nosuch%d' % n

    def pytag(self, t):
        return self.types[t].tagSet if t < self.N else univ.OctetString.tagSet

    def apply(self, obj, op):
        t, a = op[0], op[1:]
        slot = lambda c: ('OSlot', canon_comp(c))
        if t == 'RSetItem':
            obj[self.pykey(a[0])] = self.val(a[1], self.key_pos(a[0])); return obj, RET
        if t in ('RSetPos', 'RSetName', 'RSetType'):
            if t == 'RSetPos':
                f, k, arg = obj.setComponentByPosition, self.norm(a[0]), a[0]
            elif t == 'RSetName':
                f, k, arg = obj.setComponentByName, (a[0] if a[0] < self.N else None), self.pyname(a[0])
            else:
                f, k, arg = obj.setComponentByType, (a[0] if a[0] < self.N else None), self.pytag(a[0])
            if a[1] is None:
                f(arg)
            else:
                f(arg, self.val(a[1], k))
            return obj, RET
        if t == 'RClear':
            obj.clear(); return obj, RET
        if t == 'RReset':
            obj.reset(); return obj, RET
        if t == 'RClone':
            return obj.clone(cloneValueFlag=a[0]), RET
        if t == 'RLen':
            return obj, ('ONat', len(obj))
        if t in ('RIter', 'RKeys'):
            l = list(iter(obj)) if t == 'RIter' else list(obj.keys())
            return obj, ('ONats', [self.name_id(x) for x in l])
        if t == 'RIn':
            return obj, ('OBool', bool(self.pyname(a[0]) in obj))
        if t == 'RGetItem':
            return obj, slot(obj[self.pykey(a[0])])
        if t == 'RGetPos':
            return obj, slot(obj.getComponentByPosition(a[0], instantiate=a[1]))
        if t == 'RGetName':
            return obj, slot(obj.getComponentByName(self.pyname(a[0]), instantiate=a[1]))
        if t == 'RGetType':
            return obj, slot(obj.getComponentByType(self.pytag(a[0]), instantiate=a[1]))
        if t == 'RValues':
            return obj, ('OSlots', [canon_comp(c) for c in obj.values()])
        if t == 'RItems':
            return obj, ('OItems', [(self.name_id(k), canon_comp(c)) for k, c in obj.items()])
        if t == 'RPretty':
            r = obj.prettyPrint()
            assert isinstance(r, str)
            return obj, RET
        if t == 'REq':
            return obj, ('OBool', bool(self.eq_call(obj, a[0])))
        if t == 'RIsValue':
            return obj, ('OBool', bool(obj.isValue))
        if t == 'REncode':
            return obj, ('OBytes', bytes(der_encoder.encode(obj)))
        if t == 'RGetComponent':
            return obj, slot(obj.getComponent())
        if t == 'RGetName0':
            return obj, ('ONat', self.name_id(obj.getName()))
        raise ValueError(op)

    def eq_call(self, obj, l):
        return obj == list(l)

    def name_id(self, nm):
        for k, f in enumerate(self.fields):
            if f[0] == nm:
                return k
        return 99

    def snapshot(self, obj):
        cv = obj._componentValues
        if cv is noValue:
            return None
        return [canon_comp(c) for c in cv]

    def modelled(self, snap):
        return snap is None or all(c is None or c == 'CSchema' or c[0] == 'CVal' for c in snap)

    def c_snap(self, snap):
        return 'None' if snap is None else '(Some %s)' % coqio.clist([c_slot(c) for c in snap])

    def abs_content(self, snap):
        d = dict(self.defaults)
        for k, c in enumerate(snap or []):
            if c is not None and c != 'CSchema':
                d[k] = c[1]
        return d

    def observe(self, obj, snap):
        return {'content': self.abs_content(snap), 'isValue': call(lambda: bool(obj.isValue))}

    # -- prototype: a plain dict position -> int (DEFAULT components start at their default)
    def proto_init(self):
        return dict(self.defaults)

    def proto_isvalue(self, P):
        return all(k in P for k, f in enumerate(self.fields) if f[1] == 'req')

    def proto_observe(self, P):
        return {'content': dict(P), 'isValue': self.proto_isvalue(P)}

    def twin_eq(self, obj, snap):
        """obj == a fresh object assigned exactly the members that hold a value in obj (reads in obj's past are not replayed):
        -> ('ok', bool) | ('raised', class) | None when there is nothing to compare"""
        if self.family != 'rec' or not snap or not any(c is not None and c != 'CSchema' for c in snap):
            return None
        twin = self.make()
        for k, c in enumerate(snap):
            if c is not None and c != 'CSchema':
                twin.setComponentByPosition(k, c[1])
        try:
            return ('ok', bool(obj == twin) and bool(twin == obj))
        except Exception as e:  # noqa
            return ('raised', type(e).__name__)

    def proto_der(self, P):
        ks = [k for k in sorted(P) if not (self.fields[k][1] == 'def' and P[k] == self.fields[k][2])]
        if self.isset:
            ks.sort(key=self.tagkey)
        return der_cons(0x31 if self.isset else 0x30, [der_int(self.tagoctet(k), P[k]) for k in ks])

    def resolve(self, op):
        """-> (k or None, bad_address)"""
        t, a = op[0], op[1:]
        if t in ('RSetItem', 'RGetItem'):
            k = self.key_pos(a[0])
        elif t in ('RSetPos', 'RGetPos'):
            k = self.norm(a[0])
        else:
            k = a[0] if a[0] < self.N else None
        return k

    def pslot(self, P, k):
        return ('CVal', P[k]) if k in P else None

    def proto_step(self, P, op):
        t, a = op[0], op[1:]
        if t in ('RSetItem', 'RSetPos', 'RSetName', 'RSetType'):
            k = self.resolve(op)
            v = a[1]
            if k is None:
                return ('ill',)
            P = dict(P)
            if v is None:          # "schema object will be set as a component": the member is dropped
                P.pop(k, None)
                if k in self.defaults:
                    P[k] = self.defaults[k]
                return ('wf', P, RET)
            if v[0] in ('PBad', 'PBadAsn'):
                return ('ill',)
            P[k] = v[1]
            return ('wf', P, RET)
        if t in ('RClear', 'RReset'):
            return ('wf', self.proto_init(), RET)
        if t == 'RClone':
            return ('wf', dict(P) if a[0] else self.proto_init(), RET)
        if t == 'RLen':
            return ('wf', P, ('ONat', self.N))          # a dict with the declared keys
        if t in ('RIter', 'RKeys'):
            return ('wf', P, ('ONats', list(range(self.N))))
        if t == 'RIn':
            return ('wf', P, ('OBool', a[0] < self.N))
        if t in ('RGetItem', 'RGetPos', 'RGetName', 'RGetType'):
            k = self.resolve(op)
            inst = True if t == 'RGetItem' else a[1]
            if k is None:
                if t == 'RGetPos' and not inst:
                    return ('wf', P, ('OSlot', None))
                return ('ill',)
            if not inst and k in self.defaults and P.get(k) == self.defaults[k]:
                return ('undef',)      # default materialised or not: not a function of the content
            return ('wf', P, ('OSlot', self.pslot(P, k)))
        if t == 'RValues':
            return ('wf', P, ('OSlots', [self.pslot(P, k) for k in range(self.N)]))
        if t == 'RItems':
            return ('wf', P, ('OItems', [(k, self.pslot(P, k)) for k in range(self.N)]))
        if t == 'RPretty':
            return ('undef',)
        if t == 'REq':
            # == compares the slots: defined by the content only when every member is explicitly present
            if len(P) == self.N and all(P[k] != d for k, d in self.defaults.items()):
                return ('wf', P, ('OBool', [P[k] for k in range(self.N)] == list(a[0])))
            return ('undef',)
        if t == 'RIsValue':
            return ('wf', P, ('OBool', self.proto_isvalue(P)))
        if t == 'REncode':
            if self.proto_isvalue(P):
                return ('wf', P, ('OBytes', self.proto_der(P)))
            return ('ill',)
        return ('undef',)

    def is_reader(self, op):
        return op[0] in ('RLen', 'RIter', 'RKeys', 'RIn', 'RGetItem', 'RGetPos', 'RGetName', 'RGetType', 'RValues',
                         'RItems', 'RPretty', 'REq', 'RIsValue', 'REncode', 'RGetComponent', 'RGetName0')

    def out_equiv(self, real, proto):
        """outcomes agree up to: an instantiated placeholder is an absent member"""
        f = lambda s: None if s == 'CSchema' else s
        if real[0] != proto[0]:
            return False
        if real[0] == 'OSlot':
            return f(real[1]) == f(proto[1])
        if real[0] == 'OSlots':
            return [f(x) for x in real[1]] == [f(x) for x in proto[1]]
        if real[0] == 'OItems':
            return [(k, f(x)) for k, x in real[1]] == [(k, f(x)) for k, x in proto[1]]
        return real == proto

    def finding_class(self, P, op):
        if op[0] == 'RLen':
            return 'F18h'
        return None

    def by_type(self):
        return self.isset

    def gen_val(self, rng):
        r = rng.random()
        if r < 0.88:
            return gen_goodval(rng)
        return rng.choice([('PBad',), ('PBadAsn',)])

    def gen_pos(self, rng):
        r = rng.random()
        if r < 0.8:
            return rng.randrange(-self.N, self.N)
        return rng.choice([self.N, self.N + 1, self.N + 4, -self.N - 1, -self.N - 3])

    def gen_name(self, rng):
        return rng.randrange(self.N) if rng.random() < 0.88 else self.N + rng.randrange(2)

    def gen_op(self, rng, P, wild):
        r = rng.random()
        if r < 0.4:
            c = rng.random()
            if c < 0.3:
                key = ('KName', self.gen_name(rng)) if rng.random() < 0.6 else ('KPos', self.gen_pos(rng))
                return ('RSetItem', key, self.gen_val(rng))
            nov = rng.random() < 0.1
            if c < 0.5:
                return ('RSetPos', self.gen_pos(rng), None if nov else self.gen_val(rng))
            if c < 0.7 or (c < 0.82 and not self.by_type()):
                return ('RSetName', self.gen_name(rng), None if nov else self.gen_val(rng))
            if c < 0.82:
                return ('RSetType', self.gen_name(rng), None if nov else self.gen_val(rng))
            if c < 0.88:
                return ('RClear',)
            if c < 0.92:
                return ('RReset',)
            return ('RClone', rng.random() < 0.75)
        c = rng.random()
        if c < 0.07:
            return ('RLen',)
        if c < 0.12:
            return (rng.choice(['RIter', 'RKeys']),)
        if c < 0.18:
            return ('RIn', self.gen_name(rng))
        if c < 0.34:
            return ('RGetItem', ('KName', self.gen_name(rng)) if rng.random() < 0.6 else ('KPos', self.gen_pos(rng)))
        inst = rng.random() < 0.5
        if c < 0.46:
            return ('RGetPos', self.gen_pos(rng), inst)
        if c < 0.58 or (c < 0.66 and not self.by_type()):
            return ('RGetName', self.gen_name(rng), inst)
        if c < 0.66:
            return ('RGetType', self.gen_name(rng), inst)
        if c < 0.72:
            return (rng.choice(['RValues', 'RItems']),)
        if c < 0.76:
            return ('RPretty',)
        if c < 0.82:
            return ('REq', self.gen_eq(rng, P))
        if c < 0.9:
            return ('RIsValue',)
        return ('REncode',)

    def gen_eq(self, rng, P):
        l = [P.get(k, 0) for k in range(self.N)]
        if rng.random() < 0.4:
            l[rng.randrange(self.N)] += 1
        return l

    def c_cfg(self):
        fs = []
        for nm, kind, dflt, tg in self.fields:
            fk = {'req': 'FReq', 'opt': 'FOpt'}.get(kind) or '(FDef %s)' % coqio.cZ(dflt)
            tgs = coqio.ctag(0, False, 2) if tg is None else coqio.ctag(128, False, tg)
            fs.append('(%s, %s)' % (fk, tgs))
        return coqio.clist(fs)

    def c_trace(self, trace):
        return coqio.clist(['(%s, %s)' % (c_out(o), self.c_snap(s)) for o, s in trace])

    def coq_check(self, ops, trace):
        return 'rec_check %s %s %s %s' % (self.c_cfg(), coqio.cbool(self.isset),
                                          coqio.clist([c_op(o) for o in ops]), self.c_trace(trace))

    def coq_first_bad(self, ops, trace):
        return 'rec_first_bad %s %s (Some []) %s %s 0%%nat' % (
            self.c_cfg(), coqio.cbool(self.isset), coqio.clist([c_op(o) for o in ops]), self.c_trace(trace))

    def c_proto(self, P):
        return coqio.clist([coqio.copt(P.get(k), coqio.cZ) for k in range(self.N)])

    def coq_spec_check(self, ops, ptrace):
        tr = coqio.clist(['None' if e is None else '(Some (%s, %s))' % (self.c_proto(e[0]), c_out(e[1])) for e in ptrace])
        return 'r_spec_check %s %s (r_init %s) %s %s' % (self.c_cfg(), coqio.cbool(self.isset), self.c_cfg(),
                                                        coqio.clist([c_op(o) for o in ops]), tr)

    def coq_run(self, ops):
        return 'rec_run %s %s (Some []) %s' % (self.c_cfg(), coqio.cbool(self.isset), coqio.clist([c_op(o) for o in ops]))


class ChoiceKind(RecKind):
    family = 'choice'

    def __init__(self, fields, name):
        RecKind.__init__(self, True, fields, name)

    def base_class(self):
        return univ.Choice

    def eq_call(self, obj, l):
        return obj == l[0]

    def by_type(self):
        return True

    def snapshot(self, obj):
        return (obj._currentIdx, RecKind.snapshot(self, obj))

    def modelled(self, snap):
        return RecKind.modelled(self, snap[1])

    def c_snap(self, snap):
        cur = snap[0]
        ccur = 'None' if cur is None else '(Some %s)' % coqio.cnat(cur if 0 <= cur < 50 else 77)
        return '(mkC %s %s)' % (ccur, RecKind.c_snap(self, snap[1]))

    def observe(self, obj, snap):
        cur, sl = snap
        held = [(k, c) for k, c in enumerate(sl or []) if c is not None]
        vals = [(k, c[1]) for k, c in held if c != 'CSchema']
        return {'content': vals[0] if len(vals) == 1 else (None if not vals else ('several', vals)),
                'occupied': len(held), 'len': call(lambda: len(obj)), 'isValue': call(lambda: bool(obj.isValue))}

    # -- prototype: None | (k, z) | (k, None): at most one alternative, possibly without a value yet
    def proto_init(self):
        return None

    def proto_observe(self, P):
        return {'content': P if P and P[1] is not None else None, 'occupied': 1 if P else 0,
                'len': 1 if P else 0, 'isValue': bool(P and P[1] is not None)}

    def proto_step(self, P, op):
        t, a = op[0], op[1:]
        cur = lambda: ('CVal', P[1]) if P and P[1] is not None else None
        if t in ('RSetItem', 'RSetPos', 'RSetName', 'RSetType'):
            k = self.resolve(op)
            v = a[1]
            if k is None:
                return ('ill',)
            if v is None:
                return ('wf', (k, None), RET)
            if v[0] in ('PBad', 'PBadAsn'):
                return ('ill',)
            return ('wf', (k, v[1]), RET)
        if t in ('RClear', 'RReset'):
            return ('wf', None, RET)
        if t == 'RClone':
            return ('wf', P if a[0] else None, RET)
        if t == 'RLen':
            return ('wf', P, ('ONat', 1 if P else 0))
        if t in ('RIter', 'RKeys'):
            return ('wf', P, ('ONats', [P[0]] if P else []))
        if t == 'RIn':
            return ('wf', P, ('OBool', bool(P) and P[0] == a[0]))
        if t in ('RGetItem', 'RGetPos', 'RGetName', 'RGetType'):
            k = self.resolve(op)
            inst = True if t == 'RGetItem' else a[1]
            if k is None:
                if t == 'RGetPos' and not inst:
                    return ('wf', P, ('OSlot', None))
                return ('ill',)
            if P and P[0] == k:
                return ('wf', P, ('OSlot', cur()))
            if not inst:
                return ('wf', P, ('OSlot', None))
            if P is None or P[1] is None:
                return ('wf', (k, None), ('OSlot', None))       # documented instantiation; nothing is lost
            return ('wf', P, ('OSlot', None))                   # a value is held: the read must not drop it
        if t == 'RValues':
            return ('wf', P, ('OSlots', [cur()] if P else []))
        if t == 'RItems':
            return ('wf', P, ('OItems', [(P[0], cur())] if P else []))
        if t == 'RPretty':
            return ('undef',)
        if t == 'REq':
            if P and P[1] is not None:
                return ('wf', P, ('OBool', P[1] == a[0][0]))
            return ('undef',)
        if t == 'RIsValue':
            return ('wf', P, ('OBool', bool(P and P[1] is not None)))
        if t == 'REncode':
            if P and P[1] is not None:
                return ('wf', P, ('OBytes', der_int(self.tagoctet(P[0]), P[1])))
            return ('ill',)
        if t == 'RGetComponent':
            return ('wf', P, ('OSlot', cur())) if P else ('ill',)
        if t == 'RGetName0':
            return ('wf', P, ('ONat', P[0])) if P else ('ill',)
        return ('undef',)

    def is_reader(self, op):
        # a read that instantiates the first alternative of an empty CHOICE is documented behaviour and
        # changes len/iteration; it is accounted for by the prototype, not by the "reads are inert" test
        return RecKind.is_reader(self, op)

    def finding_class(self, P, op):
        t, a = op[0], op[1:]
        if t in ('RGetItem', 'RGetPos', 'RGetName', 'RGetType'):
            k = self.resolve(op)
            inst = True if t == 'RGetItem' else a[1]
            if inst and k is not None and P and P[0] != k and P[1] is not None:
                return 'F18a'
        return None

    def gen_op(self, rng, P, wild):
        if rng.random() < 0.08:
            return (rng.choice(['RGetComponent', 'RGetName0']),)
        op = RecKind.gen_op(self, rng, P, wild)
        if not wild and self.finding_class(P, op):
            # keep the clean population out of the F18a class: read the selected alternative instead
            if op[0] == 'RGetItem':
                return ('RGetItem', ('KName', P[0]))
            return (op[0], P[0], op[2])
        return op

    def gen_eq(self, rng, P):
        return [P[1] if P and P[1] is not None and rng.random() < 0.6 else gen_z(rng)]

    def coq_check(self, ops, trace):
        return 'ch_check %s %s %s' % (self.c_cfg(), coqio.clist([c_op(o) for o in ops]), self.c_trace(trace))

    def coq_first_bad(self, ops, trace):
        return 'ch_first_bad %s ch_init %s %s 0%%nat' % (self.c_cfg(), coqio.clist([c_op(o) for o in ops]), self.c_trace(trace))

    def c_proto(self, P):
        return 'None' if P is None else '(Some (%s, %s))' % (coqio.cnat(P[0]), coqio.copt(P[1], coqio.cZ))

    def coq_spec_check(self, ops, ptrace):
        tr = coqio.clist(['None' if e is None else '(Some (%s, %s))' % (self.c_proto(e[0]), c_out(e[1])) for e in ptrace])
        return 'c_spec_check %s None %s %s' % (self.c_cfg(), coqio.clist([c_op(o) for o in ops]), tr)

    def coq_run(self, ops):
        return 'ch_run %s ch_init %s' % (self.c_cfg(), coqio.clist([c_op(o) for o in ops]))


def standard_kinds():
    seq_fields = [('a', 'req', None, None), ('b', 'opt', None, 0), ('c', 'def', 7, 1), ('d', 'req', None, 2)]
    set_fields = [('a', 'req', None, 2), ('b', 'opt', None, 0), ('c', 'def', 7, None), ('d', 'req', None, 1)]
    ch_fields = [('x', 'req', None, None), ('y', 'req', None, 0), ('z', 'req', None, 1)]
    return [SeqOfKind(True, False), SeqOfKind(True, True), SeqOfKind(False, False),
            RecKind(False, seq_fields, 'Seq4'), RecKind(True, set_fields, 'Set4'), ChoiceKind(ch_fields, 'Choice3')]


# ---------------------------------------------------------------------------------------------
# running a history

def out_equiv(kind, real, proto):
    f = getattr(kind, 'out_equiv', None)
    return f(real, proto) if f else real == proto


class StepReport(object):
    __slots__ = ('what', 'finding', 'step', 'detail')

    def __init__(self, what, finding, step, detail=None):
        self.what, self.finding, self.step, self.detail = what, finding, step, detail


def run_history(kind, ops, stop_at_first=False):
    """Run ops on a fresh real object and, in parallel, on the plain Python prototype.
    -> trace [(outcome, snapshot)], property failures [StepReport], modelled_upto, ptrace
    ptrace: per step (prototype state after, prototype outcome) where the prototype predicts, else None; it ends
    where the prototype stops being driven.  A failure that leaves the two sides in different states ends the prototype comparison for the rest
    of the history (the correspondence with the Coq model continues)."""
    obj = kind.make()
    P = kind.proto_init()
    trace = []
    failures = []
    ptrace = []
    proto_live = True
    modelled_upto = len(ops)
    for i, op in enumerate(ops):
        before = kind.snapshot(obj)
        obs_before = kind.observe(obj, before)
        holder = [obj]

        def go():
            o2, out = kind.apply(holder[0], op)
            holder[0] = o2
            return out
        out = call(go)
        original = obj
        obj = holder[0]
        snap = kind.snapshot(obj)
        if not kind.modelled(snap) and modelled_upto == len(ops):
            modelled_upto = i
        trace.append((out, snap))
        if not proto_live:
            continue
        obs = kind.observe(obj, snap)
        cls = kind.finding_class(P, op)
        verdict = kind.proto_step(P, op)
        ptrace.append((verdict[1], verdict[2]) if verdict[0] == 'wf' else None)
        what = None
        diverged = False
        detail = None
        if op[0] in ('SClone', 'RClone') and kind.snapshot(original) != before:
            what, diverged = 'clone changed the object it was called on', True
        elif verdict[0] == 'wf':
            _, P2, pout = verdict
            pobs = kind.proto_observe(P2)
            bad = [k for k, v in pobs.items() if obs.get(k) != v]
            if bad:
                diverged = True
                if kind.is_reader(op) and kind.proto_observe(P) == pobs:
                    what = 'a read (%s) changed the observables (%s)' % (op[0], ','.join(bad))
                else:
                    what = '%s: observables (%s) differ from the prototype afterwards' % (op[0], ','.join(bad))
                detail = {'real': {k: obs.get(k) for k in bad}, 'prototype': {k: pobs[k] for k in bad}}
            elif not out_equiv(kind, out, pout):
                what = '%s: result differs from the prototype' % op[0]
                detail = {'real': out, 'prototype': pout}
            P = P2
        elif verdict[0] == 'ill':
            if obs != obs_before:
                what, diverged = 'ill-formed %s changed the object' % op[0], True
                detail = {'before': before, 'after': snap, 'outcome': out}
            elif out[0] != 'ORaise' or not is_lookup_or_library(out[1]):
                what = 'ill-formed %s did not raise a lookup or library error' % op[0]
                detail = {'outcome': out}
        else:
            if kind.is_reader(op):
                if obs != obs_before:
                    what, diverged = 'a read (%s) changed the observables' % op[0], True
            else:
                proto_live = False           # outside what the prototype defines
        if what:
            failures.append(StepReport(what, cls, i, detail))
            if diverged or stop_at_first:
                proto_live = False
        pc = kind.post_check(obj, op, out, before) if hasattr(kind, 'post_check') else None
        if pc and not what:
            failures.append(StepReport('%s: %s' % (op[0], pc), None, i, {'state': snap}))
        te = kind.twin_eq(obj, snap) if hasattr(kind, 'twin_eq') else None
        if te is not None and te != ('ok', True) and not what:
            # whatever was read on the way, the object equals one holding the same members
            failures.append(StepReport('after %s the object does not compare equal to a fresh object holding the same members' % op[0],
                                       None, i, {'==': te, 'state': snap}))
    return trace, failures, modelled_upto, ptrace


def shrink_history(kind, ops, failure, budget=300):
    """drop operations while the same failure (text and class) persists at the last step"""
    ops = list(ops[:failure.step + 1])

    def still(cand):
        try:
            _, fs, _, _ = run_history(kind, cand)
        except Exception:
            return False
        return any(f.what == failure.what and f.finding == failure.finding and f.step == len(cand) - 1 for f in fs)
    i = len(ops) - 2
    while i >= 0 and budget > 0:
        cand = ops[:i] + ops[i + 1:]
        budget -= 1
        if still(cand):
            ops = cand
        i -= 1
    return ops

"""Printing Python data as Coq literals (the model's vocabulary)."""

CLS = {0: 'Univ', 64: 'Appl', 128: 'Ctx', 192: 'Priv'}


def cbool(b):
    return 'true' if b else 'false'


def cN(n):
    assert n >= 0
    return '%d' % n


def cZ(z):
    return '(%d)%%Z' % z


def cnat(n):
    return '%d%%nat' % n


def cbytes(b):
    """bytes -> `list N` literal; long runs are folded with `unseg`"""
    b = bytes(b)
    if len(b) <= 64:
        return '[' + ';'.join('%d' % x for x in b) + ']'
    segs, i = [], 0
    lit = []
    while i < len(b):
        j = i
        while j < len(b) and b[j] == b[i]:
            j += 1
        if j - i >= 16:
            if lit:
                segs.append('Lit [' + ';'.join('%d' % x for x in lit) + ']'); lit = []
            segs.append('Rep %d %d' % (j - i, b[i]))
        else:
            lit.extend(b[i:j])
        i = j
    if lit:
        segs.append('Lit [' + ';'.join('%d' % x for x in lit) + ']')
    return '(unseg [' + ';'.join(segs) + '])'


def clist(items):
    return '[' + ';'.join(items) + ']'


def copt(x, f=str):
    return 'None' if x is None else '(Some %s)' % f(x)


def ctag(cls, con, num):
    return '(mkTag %s %s %d)' % (CLS[cls] if isinstance(cls, int) else cls, cbool(con), num)

"""Generators of type and value descriptors (see harness/universe.py for the descriptor format).
Every random choice comes from the `random.Random` passed in, so cases replay from the seed."""

CLASSES = [64, 128, 192]
TAGNUMS = [0, 1, 2, 5, 30, 31, 127, 128, 16383, 16384, 2 ** 32]
CHAR_KINDS = ['UTF8String', 'IA5String', 'BMPString', 'UniversalString', 'PrintableString', 'NumericString',
              'VisibleString', 'TeletexString', 'GeneralString', 'GraphicString', 'VideotexString', 'ObjectDescriptor']
ALPHABET = {
    'UTF8String': 'abcé中\U0001F600 z', 'IA5String': 'abc xyz@', 'BMPString': 'abé中z', 'UniversalString': 'aé中\U0001F600',
    'PrintableString': 'abcXYZ 019', 'NumericString': '0123 9', 'VisibleString': 'abc~!', 'TeletexString': 'abé\xff',
    'GeneralString': 'ab\xe9', 'GraphicString': 'ab\xe9', 'VideotexString': 'ab\xe9', 'ObjectDescriptor': 'desc\xe9',
}


def base_desc(T):
    while T[0] in ('imp', 'exp'):
        T = T[2]
    return T


def outer_tags(T):
    """set of (class, number) an encoding of T may start with; None = anything (ANY)"""
    k = T[0]
    if k in ('imp', 'exp'):
        return {(T[1][0], T[1][2])}
    if k == 'choice':
        s = set()
        for a in T[1]:
            o = outer_tags(a)
            if o is None: return None
            s |= o
        return s
    if k == 'any':
        return None
    UN = {'bool': 1, 'int': 2, 'bits': 3, 'octs': 4, 'null': 5, 'oid': 6, 'real': 9, 'enum': 10,
          'seq': 16, 'seqof': 16, 'set': 17, 'setof': 17}
    if k == 'str':
        from harness.universe import STR_TYPES
        return {(0, STR_TYPES[T[1]][1])}
    return {(0, UN[k])}


class Gen:
    def __init__(self, rng, depth=3, any_ok=True, choice_ok=True, defaults_ok=True, reals='bin', chars=True,
                 tags=True, times=True, max_fields=4, set_ok=True, untagged_choice_ok=True, implicit_ok=True, any_der=False):
        self.r = rng
        self.depth = depth
        self.any_ok, self.choice_ok, self.defaults_ok = any_ok, choice_ok, defaults_ok
        self.reals, self.chars, self.tags, self.times = reals, chars, tags, times
        self.max_fields, self.set_ok = max_fields, set_ok
        self.untagged_choice_ok, self.implicit_ok = untagged_choice_ok, implicit_ok
        self.any_der = any_der          # ANY holds DER encodings only (for the canonical codecs)

    # ---- types
    def rtag(self, small=False):
        r = self.r
        return (r.choice(CLASSES), 0, r.choice([0, 1, 2, 3] if small else TAGNUMS))

    def tagit(self, T, p=0.35, depth=3):
        r = self.r
        while self.tags and depth > 0 and r.random() < p:
            t = self.rtag()
            if self.implicit_ok and r.random() < 0.5 and base_desc(T)[0] not in ('choice', 'any'):
                T = ('imp', t, T)
            elif self.implicit_ok and r.random() < 0.5 and T[0] in ('imp', 'exp'):
                T = ('imp', t, T)
            else:
                T = ('exp', t, T)
            depth -= 1
        return T

    def simple(self):
        r = self.r
        kinds = ['bool', 'int', 'int', 'enum', 'bits', 'octs', 'null', 'oid']
        if self.reals: kinds.append('real')
        if self.chars: kinds += ['str', 'str']
        k = r.choice(kinds)
        if k == 'str':
            names = list(CHAR_KINDS)
            if self.times: names += ['GeneralizedTime', 'UTCTime']
            return ('str', r.choice(names))
        return (k,)

    def distinct_component(self, used, depth, i):
        """a component type whose outer tags do not clash with `used`"""
        r = self.r
        for _ in range(4):
            ct = self.ty(depth - 1, top=False)
            o = outer_tags(ct)
            if o is not None and not (o & used) and r.random() < 0.6:
                return ct, o
        ct = self.ty(depth - 1, top=False)
        t = (128, 0, 20 + i)
        while (t[0], t[2]) in used:
            t = (128, 0, t[2] + 1)
        if self.implicit_ok and base_desc(ct)[0] not in ('choice', 'any') and r.random() < 0.5:
            ct = ('imp', t, ct)
        else:
            ct = ('exp', t, ct)
        return ct, {(t[0], t[2])}

    def ty(self, depth=None, top=True):
        r = self.r
        depth = self.depth if depth is None else depth
        if depth <= 0 or r.random() < 0.3:
            T = self.simple()
        else:
            kinds = ['seq', 'seq', 'seqof', 'setof']
            if self.set_ok: kinds += ['set']
            if self.choice_ok: kinds += ['choice']
            if self.any_ok and not top: kinds += ['any']
            k = r.choice(kinds)
            if k in ('seq', 'set'):
                n = r.randint(0, self.max_fields)
                fs, used = [], set()
                for i in range(n):
                    ct, o = self.distinct_component(used, depth, i)
                    used |= o
                    pk = r.choice(['req', 'req', 'opt', 'def'] if self.defaults_ok else ['req', 'req', 'opt'])
                    if pk == 'def':
                        if base_desc(ct)[0] in ('seq', 'set', 'seqof', 'setof', 'choice', 'any', 'real'):
                            pk = 'opt'
                        else:
                            pk = ('def', self.val(ct))
                    fs.append((pk, ct))
                T = (k, fs)
            elif k in ('seqof', 'setof'):
                T = (k, self.ty(depth - 1, top=False))
            elif k == 'choice' and self.any_ok and self.untagged_choice_ok and r.random() < 0.12:
                # an untagged ANY as the only alternative: the ANY must come back with its own header octets
                T = ('choice', [('any',)])
            elif k == 'choice':
                n = r.randint(1, 3)
                alts, used = [], set()
                for i in range(n):
                    ct, o = self.distinct_component(used, depth, i)
                    used |= o
                    alts.append(ct)
                T = ('choice', alts)
                if not self.untagged_choice_ok or r.random() < 0.3:
                    T = ('exp', self.rtag(), T)
            else:
                T = ('any',)
                if r.random() < 0.5:
                    T = ('exp', self.rtag(), T)
        return self.tagit(T)

    # ---- values
    def val(self, T):
        r = self.r
        b = base_desc(T)
        k = b[0]
        if k == 'bool': return ('b', r.random() < 0.5)
        if k in ('int', 'enum'):
            j = r.randint(0, 9)
            return ('i', r.choice([0, 1, -1, 127, 128, -128, -129, 255, 256, 2 ** (8 * j) - 1, -2 ** (8 * j),
                                   2 ** (8 * j - 1) if j else 3, -2 ** (8 * j - 1) - 1 if j else -3, -2 ** (8 * j - 1) if j else 5,
                                   r.randint(-10 ** 12, 10 ** 12)]))
        if k == 'bits':
            n = r.choice([0, 1, 7, 8, 9, 15, 16, 17, r.randint(0, 40), r.randint(16, 64)])
            bits = [r.randint(0, 1) for _ in range(n)]
            shape = r.random()
            if shape < 0.2:                       # leading zeros: whole octets of them
                z = r.randint(0, n)
                bits[:z] = [0] * z
            elif shape < 0.3:
                bits = [0] * n
            elif shape < 0.35:
                bits = [1] * n
            return ('bits', tuple(bits))
        if k == 'octs':
            return ('o', bytes(r.randint(0, 255) for _ in range(r.choice([0, 1, 2, 3, 4, 7, 8, r.randint(0, 20)]))))
        if k == 'null': return ('null',)
        if k == 'oid':
            f = r.choice([0, 1, 2])
            s = r.randint(0, 39) if f < 2 or r.random() < .5 else r.choice([40, 47, 48, 100, 2 ** 20])
            return ('oid', (f, s) + tuple(r.choice([0, 1, 127, 128, 16383, 16384, 2 ** 32, r.randint(0, 10 ** 6)])
                                          for _ in range(r.randint(0, 4))))
        if k == 'real':
            j = r.randint(0, 5)
            if j == 0: return ('real', (0, 2, 0))
            if j == 1: return ('real', r.choice(['inf', '-inf']))
            if j == 2 and self.reals == 'all': return ('real', (r.randint(-10 ** 6, 10 ** 6), 10, r.randint(-5, 5)))
            return ('real', (r.choice([1, -1, 3, 5, 255, 256, 257, 1024, r.randint(-10 ** 9, 10 ** 9)]) or 1, 2,
                             r.choice([0, 1, -1, 3, -3, 127, 128, -128, -129, 255, 256, 32767, 32768, -32769,
                                       r.randint(-1000, 1000)])))
        if k == 'str':
            name = b[1]
            if name == 'GeneralizedTime':
                return ('chars', r.choice(['20170801120112Z', '20170801120112.5Z', '20170801120112.123Z',
                                           '19991231235959.999Z']))
            if name == 'UTCTime':
                return ('chars', r.choice(['170801120112Z', '991231235959Z', '500101000000Z']))
            al = ALPHABET[name]
            return ('chars', ''.join(r.choice(al) for _ in range(r.choice([0, 1, 2, 3, 5, 8, r.randint(0, 12)]))))
        if k == 'any':
            # a complete, well-formed encoding, as the library documents
            n = r.randint(0, 5)
            body = bytes(r.randint(0, 255) for _ in range(n))
            return ('any', r.choice([
                b'\x04' + bytes([n]) + body, b'\x02\x01' + bytes([r.randint(0, 255)]), b'\x05\x00',
                b'\x30\x03\x02\x01\x05', b'\xa0\x03\x02\x01\x05', b'\x0c\x02\xc3\xa9', b'\x30\x00',
                b'\x81' + bytes([n]) + body, b'\x01\x01\xff',
                b'\x7f\x81\x00\x02\x04\x00'] + ([] if self.any_der else [b'\x24\x80\x04\x01\x61\x00\x00', b'\x30\x80\x02\x01\x07\x00\x00'])))
        if k in ('seq', 'set'):
            out = []
            for p, ft in b[1]:
                if p == 'opt' and r.random() < .5: out.append(None)
                elif isinstance(p, tuple) and r.random() < .4: out.append(None)
                elif isinstance(p, tuple) and r.random() < .3: out.append(p[1])
                else: out.append(self.val(ft))
            return ('rec', out)
        if k in ('seqof', 'setof'):
            return ('list', [self.val(b[1]) for _ in range(r.choice([0, 1, 2, 3]))])
        if k == 'choice':
            i = r.randrange(len(b[1]))
            return ('ch', i, self.val(b[1][i]))
        raise ValueError(T)


def features(T, acc=None):
    """type kinds occurring in T (for the input-distribution report)"""
    acc = set() if acc is None else acc
    acc.add(T[0])
    k = T[0]
    if k in ('imp', 'exp'): features(T[2], acc)
    elif k in ('seq', 'set'):
        for p, ft in T[1]:
            acc.add(p if isinstance(p, str) else 'def'); features(ft, acc)
    elif k in ('seqof', 'setof'): features(T[1], acc)
    elif k == 'choice':
        for a in T[1]: features(a, acc)
    return acc


def depth_of(T):
    k = T[0]
    if k in ('imp', 'exp'): return depth_of(T[2])
    if k in ('seq', 'set'): return 1 + max([depth_of(ft) for _, ft in T[1]] + [0])
    if k in ('seqof', 'setof'): return 1 + depth_of(T[1])
    if k == 'choice': return 1 + max([depth_of(a) for a in T[1]] + [0])
    return 0


def wf(T):
    """siblings of SET/CHOICE and OPTIONAL runs of SEQUENCE have pairwise disjoint outer tags; no bare ANY there"""
    k = T[0]
    if k in ('imp', 'exp'):
        if k == 'imp' and base_desc(T)[0] in ('choice', 'any') and T[2][0] not in ('imp', 'exp'):
            return False
        return wf(T[2])
    if k in ('seqof', 'setof'):
        return wf(T[1])
    if k in ('seq', 'set', 'choice'):
        comps = [ft for _, ft in T[1]] if k != 'choice' else list(T[1])
        if not all(wf(c) for c in comps): return False
        if k == 'choice' and not comps: return False
        used = set()
        for c in comps:
            o = outer_tags(c)
            if o is None or (o & used): return False
            used |= o
        return True
    return True

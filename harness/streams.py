"""Stream doubles and the retry loop of a streaming client (C05 C06 C07 C12)."""
import io
from harness import core
core.use_repo()
from pyasn1 import error
from harness import universe as U, implrun as I


class Growing(io.RawIOBase if False else object):
    """A seekable, non-blocking stream whose bytes arrive over time (not a BytesIO, so the generic
    paths of pyasn1.codec.streaming are taken).  read() -> None: nothing yet, still open;
    b'': nothing and closed; otherwise up to n of the octets that have arrived."""

    def __init__(self, seekable=True, max_read=None):
        self.data = bytearray()
        self.pos = 0
        self.is_closed = False
        self._seekable = seekable
        self.max_read = max_read        # short reads: hand out at most this many octets per call
        self.log = []

    # environment side
    def arrive(self, b):
        assert not self.is_closed
        self.data += b

    def close_input(self):
        self.is_closed = True

    # stream protocol
    def seekable(self):
        return self._seekable

    def tell(self):
        if not self._seekable:
            raise io.UnsupportedOperation('tell')
        return self.pos

    def seek(self, n, whence=0):
        if not self._seekable:
            raise io.UnsupportedOperation('seek')
        if whence == 0: self.pos = n
        elif whence == 1: self.pos += n
        else: self.pos = len(self.data) + n
        return self.pos

    def read(self, n=-1):
        avail = len(self.data) - self.pos
        if avail <= 0:
            self.log.append((n, None if not self.is_closed else 0))
            return None if not self.is_closed else b''
        k = avail if n is None or n < 0 else min(n, avail)
        if self.max_read:
            k = min(k, self.max_read)
        out = bytes(self.data[self.pos:self.pos + k])
        self.pos += k
        self.log.append((n, k))
        return out


def drive(decoder_mod, stream, schedule, spec=None, max_steps=100000, **options):
    """Iterate the streaming decoder, applying one environment event after each reported underrun.
    schedule: list of ('arrive', bytes) | ('close',) | ('poll',).
    Returns (events, outcome): events = 'U' per underrun report, ('obj', object, position or None);
    outcome = 'stop' | 'exhausted' (schedule ran out while suspended) | ('err', class text, repr)."""
    events = []
    sched = list(schedule)
    kw = dict(options)
    if spec is not None:
        kw['asn1Spec'] = spec
    it = iter(decoder_mod.StreamingDecoder(stream, **kw))
    steps = 0
    while True:
        steps += 1
        if steps > max_steps:
            return events, ('err', '(ECrash RuntimeError)', 'does not terminate')
        try:
            x = next(it)
        except StopIteration:
            return events, 'stop'
        except RecursionError:
            return events, ('err', '(ECrash RecursionError)', 'RecursionError')
        except Exception as e:
            return events, ('err', I.err_class(e), '%s: %s' % (type(e).__name__, str(e)[:200]))
        if isinstance(x, error.SubstrateUnderrunError) or x is None:
            events.append('U' if x is not None else 'N')
            if not sched:
                return events, 'exhausted'
            ev = sched.pop(0)
            if ev[0] == 'arrive': stream.arrive(ev[1])
            elif ev[0] == 'close': stream.close_input()
        else:
            try:
                p = stream.tell()
            except Exception:
                p = None
            events.append(('obj', x, p))


def partitions(n):
    """all 2^(n-1) ways to cut n octets into non-empty chunks, as lists of chunk sizes"""
    if n == 0:
        yield []
        return
    for mask in range(1 << (n - 1)):
        sizes, cur = [], 1
        for i in range(n - 1):
            if mask >> i & 1:
                sizes.append(cur); cur = 1
            else:
                cur += 1
        sizes.append(cur)
        yield sizes


def schedule_from_sizes(data, sizes, polls=(), close=True, first_immediately=True):
    """arrival schedule delivering `data` in chunks of the given sizes; polls = indices after which an
    empty poll is inserted"""
    sched, i = [], 0
    for k, sz in enumerate(sizes):
        sched.append(('arrive', data[i:i + sz])); i += sz
        if k in polls:
            sched.append(('poll',))
    if close:
        sched.append(('close',))
    return sched


class FeedBytesIO(io.BytesIO):
    """A non-blocking stream built the way the library's own test suite builds one: an io.BytesIO subclass
    (so the library's BytesIO fast paths apply) that holds all the octets but hands out only those that
    have `arrived`; read() -> None when nothing has arrived yet and the input is still open, b'' once closed."""

    def __init__(self, data, avail=0):
        io.BytesIO.__init__(self, bytes(data))
        self.avail = avail
        self.ended = False

    def arrive_n(self, n):
        self.avail = min(len(self.getbuffer()), self.avail + n)

    def close_input(self):
        self.ended = True

    def read(self, size=-1):
        left = self.avail - self.tell()
        if size is None or size < 0 or size > left:
            size = left
        if size == 0 and left == 0:
            return b'' if self.ended else None
        return io.BytesIO.read(self, size)


def drive_feed(decoder_mod, data, sizes, spec=None, close=True, polls=(), max_steps=100000, **options):
    """retry loop over a FeedBytesIO: one arrival (or an empty poll) after each reported underrun"""
    st = FeedBytesIO(data, 0)
    plan = []
    for k, sz in enumerate(sizes):
        plan.append(('arrive', sz))
        if k in polls: plan.append(('poll',))
    if close: plan.append(('close',))
    kw = dict(options)
    if spec is not None: kw['asn1Spec'] = spec
    events, steps = [], 0
    it = iter(decoder_mod.StreamingDecoder(st, **kw))
    while True:
        steps += 1
        if steps > max_steps:
            return events, ('err', '(ECrash RuntimeError)', 'does not terminate')
        try:
            x = next(it)
        except StopIteration:
            return events, 'stop'
        except RecursionError:
            return events, ('err', '(ECrash RecursionError)', 'RecursionError')
        except Exception as e:
            return events, ('err', I.err_class(e), '%s: %s' % (type(e).__name__, str(e)[:200]))
        if isinstance(x, error.SubstrateUnderrunError) or x is None:
            events.append('U')
            if not plan:
                return events, 'exhausted'
            ev = plan.pop(0)
            if ev[0] == 'arrive': st.arrive_n(ev[1])
            elif ev[0] == 'close': st.close_input()
        else:
            events.append(('obj', x, st.tell()))

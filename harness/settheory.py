"""Constraint expression trees for C14: an abstract syntax shared by
  * `member`   - an independent set-theoretic evaluator written with Python sets and comparisons
                 (it never imports pyasn1 and never looks at pyasn1's _testValue methods),
  * `to_pyasn1`- the builder of the real constraint objects (pyasn1 is imported only inside it),
  * `to_coq`   - the printer of Coq literals for Model/Constraint.v,
  * `wf`/`typed` - the domain of the property (mirrors Spec/SetTheory.v),
  * generators of trees per value kind and of candidate values around every boundary in a tree.

Syntax (plain tuples):
  constraint c ::= ('single', [v..]) | ('contained', [c..], [v..], [c..]) | ('range', lo, hi)
                 | ('size', lo, hi) | ('alpha', [v..]) | ('present',) | ('absent',)
                 | ('with', [(v, c)..]) | ('inner', [(None | (v, v), c)..])
                 | ('and', [c..]) | ('or', [c..]) | ('excl', [c..])
  scalar v     ::= ('int', z) | ('bytes', b) | ('text', s) | ('oid', (a..)) | ('bits', n, z)
  value x      ::= v | None | ('map', [(v, v)..])
"""
from . import coqio

# ------------------------------------------------------------------------------------------
# independent evaluator: membership in the set the expression denotes

def _size(x):
    """number of octets / characters / arcs / bits / elements, None if the value has no size"""
    if x is None:
        return None
    k = x[0]
    if k in ('bytes', 'text', 'oid'):
        return len(x[1])
    if k == 'bits':
        return x[1]
    if k == 'map':
        return len(x[1])
    return None


def _chars(x):
    """the set of characters (octets, arcs) a string is made of, None if it is not a string"""
    if x is None:
        return None
    k = x[0]
    if k == 'text':
        return {('text', ch) for ch in x[1]}
    if k in ('bytes', 'oid'):
        return {('int', o) for o in x[1]}
    return None


def _component(x, field):
    for k, v in x[1]:
        if k == field:
            return v
    return None


def member(c, idx, x):
    """x in [[c]] (at position idx, for InnerTypeConstraint) as plain set theory"""
    k = c[0]
    if k == 'single':
        return x is not None and x[0] != 'map' and x in set(c[1])
    if k == 'contained':
        return (all(member(o, idx, x) for o in c[1] + c[3])
                and (not c[2] or (x is not None and x[0] != 'map' and x in set(c[2]))))
    if k == 'range':
        return x is not None and x[0] == 'int' and c[1] <= x[1] <= c[2]
    if k == 'size':
        n = _size(x)
        return n is not None and c[1] <= n <= c[2]
    if k == 'alpha':
        s = _chars(x)
        return s is not None and s <= set(c[1])
    if k == 'present':
        return x is not None
    if k == 'absent':
        return x is None
    if k == 'with':
        return (x is not None and x[0] == 'map'
                and all(member(fc, None, _component(x, f)) for f, fc in c[1]))
    if k == 'inner':
        singles = [ic for t, ic in c[1] if t is None]
        if singles:
            return member(singles[-1], None, x)
        entry = None
        for t, ic in c[1]:
            if t is not None and t[0] == idx:
                entry = (t[1], ic)
        return idx is not None and entry is not None and entry[0] != ('text', 'ABSENT') and member(entry[1], None, x)
    if k == 'and':
        return all(member(o, idx, x) for o in c[1])
    if k == 'or':
        return any(member(o, idx, x) for o in c[1])
    if k == 'excl':
        return not any(member(o, idx, x) for o in c[1])
    raise ValueError(c)


# ------------------------------------------------------------------------------------------
# the property's domain (Spec/SetTheory.v: wf, typed)

def _nonbits(v):
    return v[0] != 'bits'


def wf(c):
    k = c[0]
    if k in ('single', 'alpha'):
        return bool(c[1]) and all(map(_nonbits, c[1]))
    if k == 'contained':
        return (bool(c[1] or c[2] or c[3]) and all(map(_nonbits, c[2])) and (bool(c[2]) or not c[3])
                and all(map(wf, c[1])) and all(map(wf, c[3])))
    if k in ('range', 'size'):
        return c[1] <= c[2]
    if k in ('present', 'absent'):
        return True
    if k == 'with':
        return bool(c[1]) and all(_nonbits(f) and wf(fc) for f, fc in c[1])
    if k == 'inner':
        return bool(c[1]) and all((t is None or _nonbits(t[0])) and wf(ic) for t, ic in c[1])
    return bool(c[1]) and all(map(wf, c[1]))


def typed(c, idx, x, plain_ok=False):
    """the constraint is applicable to the value; plain_ok also lets a ContainedSubtypeConstraint
    with plain values through (the class of finding F14c)"""
    k = c[0]
    xk = None if x is None else x[0]
    if k == 'single':
        return xk not in ('bits', 'map')
    if k == 'contained':
        return ((plain_ok and xk not in ('bits', 'map') or not c[2])
                and all(typed(o, idx, x, plain_ok) for o in c[1] + c[3]))
    if k == 'range':
        return xk == 'int'
    if k == 'size':
        return xk in ('bytes', 'text', 'oid', 'bits', 'map')
    if k == 'alpha':
        return xk in ('bytes', 'text', 'oid')
    if k == 'present':
        return True
    if k == 'absent':
        return xk != 'oid'          # presence is about components; a raw tuple upsets the message's % formatting
    if k == 'with':
        return (xk == 'map' and all(_nonbits(kk) for kk, _ in x[1])
                and all(typed(fc, None, _component(x, f), plain_ok) for f, fc in c[1]))
    if k == 'inner':
        return (idx is None or _nonbits(idx)) and all(typed(ic, None, x, plain_ok) for _, ic in c[1])
    return all(typed(o, idx, x, plain_ok) for o in c[1])


def has_contained_plain(c):
    """class predicate of finding F14c"""
    k = c[0]
    if k == 'contained':
        return bool(c[2]) or any(map(has_contained_plain, c[1] + c[3]))
    if k == 'with':
        return any(has_contained_plain(fc) for _, fc in c[1])
    if k == 'inner':
        return any(has_contained_plain(ic) for _, ic in c[1])
    if k in ('and', 'or', 'excl'):
        return any(map(has_contained_plain, c[1]))
    return False


def has_range(c):
    k = c[0]
    if k == 'range':
        return True
    if k == 'contained':
        return any(map(has_range, c[1] + c[3]))
    if k == 'with':
        return any(has_range(fc) for _, fc in c[1])
    if k == 'inner':
        return any(has_range(ic) for _, ic in c[1])
    if k in ('and', 'or', 'excl'):
        return any(map(has_range, c[1]))
    return False


def depth(c):
    k = c[0]
    if k == 'contained':
        subs = c[1] + c[3]
    elif k in ('with', 'inner'):
        subs = [s for _, s in c[1]]
    elif k in ('and', 'or', 'excl'):
        subs = c[1]
    else:
        return 1
    return 1 + max([depth(s) for s in subs] or [0])


def classes(c, acc=None):
    acc = set() if acc is None else acc
    acc.add(c[0])
    k = c[0]
    if k == 'contained':
        for s in c[1] + c[3]: classes(s, acc)
    elif k in ('with', 'inner'):
        for _, s in c[1]: classes(s, acc)
    elif k in ('and', 'or', 'excl'):
        for s in c[1]: classes(s, acc)
    return acc


# ------------------------------------------------------------------------------------------
# Coq literals

def sval_coq(v):
    k = v[0]
    if k == 'int':
        return '(SInt %s)' % coqio.cZ(v[1])
    if k == 'bytes':
        return '(SBytes [%s])' % ';'.join('%d%%N' % o for o in v[1])
    if k == 'text':
        return '(SText [%s])' % ';'.join('%d%%N' % ord(ch) for ch in v[1])
    if k == 'oid':
        return '(SOid [%s])' % ';'.join('%d%%N' % a for a in v[1])
    if k == 'bits':
        return '(SBits %d%%N %s)' % (v[1], coqio.cZ(v[2]))
    raise ValueError(v)


def cval_coq(x):
    if x is None:
        return 'VNone'
    if x[0] == 'map':
        return '(VMap [%s])' % ';'.join('(%s,%s)' % (sval_coq(k), sval_coq(v)) for k, v in x[1])
    return '(VS %s)' % sval_coq(x)


def idx_coq(i):
    return 'None' if i is None else '(Some %s)' % sval_coq(i)


def to_coq(c):
    k = c[0]
    L = lambda xs: '[' + ';'.join(xs) + ']'
    if k == 'single':
        return '(CSingle %s)' % L(map(sval_coq, c[1]))
    if k == 'contained':
        return '(CContained %s %s %s)' % (L(map(to_coq, c[1])), L(map(sval_coq, c[2])), L(map(to_coq, c[3])))
    if k == 'range':
        return '(CRange %s %s)' % (coqio.cZ(c[1]), coqio.cZ(c[2]))
    if k == 'size':
        return '(CSize %s %s)' % (coqio.cZ(c[1]), coqio.cZ(c[2]))
    if k == 'alpha':
        return '(CAlpha %s)' % L(map(sval_coq, c[1]))
    if k == 'present':
        return 'CPresent'
    if k == 'absent':
        return 'CAbsent'
    if k == 'with':
        return '(CWith %s)' % L('(%s,%s)' % (sval_coq(f), to_coq(fc)) for f, fc in c[1])
    if k == 'inner':
        return '(CInner %s)' % L('(%s,%s)' % ('None' if t is None else '(Some (%s,%s))' % (sval_coq(t[0]), sval_coq(t[1])),
                                              to_coq(ic)) for t, ic in c[1])
    return '(%s %s)' % ({'and': 'CAnd', 'or': 'COr', 'excl': 'CExcl'}[k], L(map(to_coq, c[1])))


def verdict_coq(v):
    if v in ('pass', 'fail'):
        return v.capitalize()
    return '(Crash %s)' % v.split(':', 1)[1]


COQ_CRASHES = {'IndexError', 'AttributeError', 'TypeError', 'ValueError', 'OverflowError', 'RecursionError',
               'RuntimeError', 'KeyError'}


# ------------------------------------------------------------------------------------------
# the real objects

def sval_py(v, wrap=False):
    """raw payload (what prettyIn hands to the constraint), or the ASN.1 scalar object when wrap"""
    k = v[0]
    if not wrap:
        if k == 'bits':
            from pyasn1.type import univ
            return univ.SizedInteger(v[2]).setBitLength(v[1])
        return v[1]
    from pyasn1.type import univ, char
    if k == 'int':
        return univ.Integer(v[1])
    if k == 'bytes':
        return univ.OctetString(v[1])
    if k == 'text':
        return char.UTF8String(v[1])
    if k == 'oid':
        return univ.ObjectIdentifier(v[1])
    raise ValueError(v)


def cval_py(x, wrap=False):
    if x is None:
        return None
    if x[0] == 'map':
        return {k[1]: sval_py(v, wrap) for k, v in x[1]}
    return sval_py(x, wrap)


def to_pyasn1(c):
    from pyasn1.type import constraint as C
    k = c[0]
    if k == 'single':
        return C.SingleValueConstraint(*[sval_py(v) for v in c[1]])
    if k == 'contained':
        return C.ContainedSubtypeConstraint(*([to_pyasn1(o) for o in c[1]] + [sval_py(v) for v in c[2]]
                                              + [to_pyasn1(o) for o in c[3]]))
    if k == 'range':
        return C.ValueRangeConstraint(c[1], c[2])
    if k == 'size':
        return C.ValueSizeConstraint(c[1], c[2])
    if k == 'alpha':
        return C.PermittedAlphabetConstraint(*[sval_py(v) for v in c[1]])
    if k == 'present':
        return C.ComponentPresentConstraint()
    if k == 'absent':
        return C.ComponentAbsentConstraint()
    if k == 'with':
        return C.WithComponentsConstraint(*[(f[1], to_pyasn1(fc)) for f, fc in c[1]])
    if k == 'inner':
        return C.InnerTypeConstraint(*[to_pyasn1(ic) if t is None else (t[0][1], to_pyasn1(ic), t[1][1])
                                       for t, ic in c[1]])
    cls = {'and': C.ConstraintsIntersection, 'or': C.ConstraintsUnion, 'excl': C.ConstraintsExclusion}[k]
    return cls(*[to_pyasn1(o) for o in c[1]])


def impl_verdict(pc, x, idx=None, wrap=False):
    """run the real constraint: 'pass' | 'fail' | 'crash:<ExceptionName>'"""
    from pyasn1.type import error
    from pyasn1 import error as error2      # a second class of the same name lives there
    try:
        if idx is None:
            pc(cval_py(x, wrap))
        else:
            pc(cval_py(x, wrap), idx[1])
        return 'pass'
    except (error.ValueConstraintError, error2.ValueConstraintError):
        return 'fail'
    except Exception as e:
        return 'crash:' + type(e).__name__


# ------------------------------------------------------------------------------------------
# generators

ALPHABET = 'abcdxyz'
FIELDS = ['a', 'b', 'c']


def _small(rng):
    return rng.choice([-130, -129, -128, -17, -2, -1, 0, 1, 2, 3, 5, 7, 8, 10, 15, 16, 31, 127, 128, 255, 256, 1000,
                       65535, 2 ** 31, 2 ** 64 + 1]) if rng.random() < 0.7 else rng.randrange(-300, 300)


def gen_scalar(rng, kind):
    if kind == 'int':
        return ('int', _small(rng))
    n = rng.choice([0, 1, 1, 2, 2, 3, 4, 5, 8])
    if kind == 'bytes':
        return ('bytes', bytes(rng.choice([0, 1, 97, 98, 99, 255]) for _ in range(n)))
    if kind == 'text':
        return ('text', ''.join(rng.choice(ALPHABET) for _ in range(n)))
    if kind == 'oid':
        return ('oid', tuple(rng.choice([0, 1, 2, 3, 6, 40, 840, 113549]) for _ in range(n)))
    if kind == 'bits':
        return ('bits', n, rng.randrange(0, 2 ** n))
    raise ValueError(kind)


def gen_leaf(rng, kind, mixed=0.0):
    """a leaf constraint that makes sense for values of `kind` (with probability `mixed`: any leaf)"""
    if rng.random() < mixed:
        kind = rng.choice(['int', 'bytes', 'text', 'oid', 'map', 'comp'])
    r = rng.random()
    if kind == 'int':
        if r < 0.5:
            lo = _small(rng); return ('range', lo, lo + rng.choice([0, 0, 1, 2, 5, 10, 100, 2 ** 33]))
        return ('single', [('int', _small(rng)) for _ in range(rng.randrange(1, 5))])
    if kind in ('bytes', 'text', 'oid'):
        if r < 0.4:
            lo = rng.randrange(0, 5); return ('size', lo, lo + rng.choice([0, 0, 1, 2, 3]))
        if r < 0.7:
            return ('single', [gen_scalar(rng, kind) for _ in range(rng.randrange(1, 4))])
        if kind == 'text':
            return ('alpha', [('text', ch) for ch in rng.sample(ALPHABET, rng.randrange(1, 5))])
        if kind == 'bytes':
            return ('alpha', [('int', o) for o in rng.sample([0, 1, 97, 98, 99, 255], rng.randrange(1, 5))])
        return ('alpha', [('int', o) for o in rng.sample([0, 1, 2, 3, 6, 40, 840, 113549], rng.randrange(1, 6))])
    if kind == 'bits':
        lo = rng.randrange(0, 5); return ('size', lo, lo + rng.choice([0, 0, 1, 2, 3]))
    if kind == 'comp':      # an optional component of a record
        if r < 0.3: return ('present',)
        if r < 0.6: return ('absent',)
        return gen_leaf(rng, rng.choice(['int', 'bytes', 'text']))
    if kind == 'map':       # SEQUENCE / SEQUENCE OF handed over as a dict
        if r < 0.4:
            lo = rng.randrange(0, 4); return ('size', lo, lo + rng.choice([0, 0, 1, 2]))
        fs = rng.sample(FIELDS, rng.randrange(1, 3))
        return ('with', [(('text', f), gen_tree(rng, 'comp:' + FIELD_KIND[f], rng.randrange(1, 3))) for f in fs])
    raise ValueError(kind)


FIELD_KIND = {'a': 'int', 'b': 'bytes', 'c': 'text'}


def gen_tree(rng, kind, depth_, mixed=0.0, plain=0.0):
    """random expression of at most the given depth for values of `kind`;
    'comp:<k>' = an optional record component of scalar kind k"""
    if kind.startswith('comp:'):
        base = kind[5:]
        if depth_ <= 1:
            r = rng.random()
            if r < 0.3: return ('present',)
            if r < 0.5: return ('absent',)
            return gen_leaf(rng, base, mixed)
    else:
        base = kind
        if depth_ <= 1 or rng.random() < 0.15:
            return gen_leaf(rng, base, mixed)
    r = rng.random()
    n = rng.randrange(1, 4)
    subs = [gen_tree(rng, kind, depth_ - 1 - (rng.random() < 0.3), mixed, plain) for _ in range(n)]
    if r < 0.3:
        return ('and', subs)
    if r < 0.6:
        return ('or', subs)
    if r < 0.78:
        return ('excl', subs)
    if r < 0.9:
        if base != 'map' and rng.random() < plain:
            k = rng.randrange(0, len(subs) + 1)
            return ('contained', subs[:k], [gen_scalar(rng, base) for _ in range(rng.randrange(1, 3))], subs[k:])
        return ('contained', subs, [], [])
    # InnerTypeConstraint
    if rng.random() < 0.5:
        return ('inner', [(None, s) for s in subs])
    args = []
    for s in subs:
        args.append(((('int', rng.randrange(0, 3)), ('text', rng.choice(['PRESENT', 'ABSENT', 'OPTIONAL']))), s))
    if rng.random() < 0.2:
        args.insert(rng.randrange(0, len(args) + 1), (None, gen_leaf(rng, base, mixed)))
    return ('inner', args)


def boundaries(c, acc):
    """collect every integer boundary, listed constant, alphabet member and field mentioned"""
    k = c[0]
    if k in ('single',):
        acc['consts'] += c[1]
    elif k == 'alpha':
        acc['alpha'] += c[1]
    elif k == 'range':
        acc['ints'] += [c[1], c[2]]
    elif k == 'size':
        acc['sizes'] += [c[1], c[2]]
    elif k == 'contained':
        acc['consts'] += c[2]
        for s in c[1] + c[3]: boundaries(s, acc)
    elif k == 'with':
        for f, s in c[1]:
            acc['fields'].append(f)
            boundaries(s, acc)
    elif k == 'inner':
        for t, s in c[1]:
            if t is not None: acc['idx'].append(t[0])
            boundaries(s, acc)
    elif k in ('and', 'or', 'excl'):
        for s in c[1]: boundaries(s, acc)
    return acc


def _string_of(kind, rng, n, alpha):
    if kind == 'text':
        pool = [a[1] for a in alpha if a[0] == 'text' and len(a[1]) == 1] or list(ALPHABET)
        return ('text', ''.join(rng.choice(pool) for _ in range(n)))
    pool = [a[1] for a in alpha if a[0] == 'int' and 0 <= a[1] < 256] or [0, 1, 97, 98, 99, 255]
    if kind == 'bytes':
        return ('bytes', bytes(rng.choice(pool) for _ in range(n)))
    pool = [a[1] for a in alpha if a[0] == 'int' and a[1] >= 0] or [0, 1, 2, 3, 6, 40]
    return ('oid', tuple(rng.choice(pool) for _ in range(n)))


def candidates(rng, c, kind, limit=24):
    """values of `kind` around every boundary mentioned in the tree"""
    b = boundaries(c, {'consts': [], 'alpha': [], 'ints': [], 'sizes': [], 'fields': [], 'idx': []})
    out = []
    if kind == 'int':
        for z in b['ints'] + [v[1] for v in b['consts'] if v[0] == 'int']:
            out += [('int', z - 1), ('int', z), ('int', z + 1)]
        out += [('int', 0), gen_scalar(rng, 'int')]
    elif kind in ('bytes', 'text', 'oid'):
        for v in b['consts']:
            if v[0] == kind:
                out.append(v)
                if len(v[1]):
                    out.append((kind, v[1][:-1]))
                out.append((kind, v[1] + _string_of(kind, rng, 1, b['alpha'])[1]))
        for n in b['sizes']:
            for m in (n - 1, n, n + 1):
                if 0 <= m <= 12:
                    out.append(_string_of(kind, rng, m, b['alpha']))          # inside the alphabet
                    out.append(_string_of(kind, rng, m, []))                  # maybe outside
        for a in b['alpha']:
            s = _string_of(kind, rng, rng.randrange(0, 4), b['alpha'])
            out.append(s)
            outsider = _string_of(kind, rng, 1, [])
            out.append((kind, s[1] + outsider[1]))
        out += [_string_of(kind, rng, 0, []), gen_scalar(rng, kind)]
    elif kind == 'bits':
        for n in b['sizes']:
            for m in (n - 1, n, n + 1):
                if 0 <= m <= 16:
                    out.append(('bits', m, rng.randrange(0, 2 ** m)))
        out += [('bits', 0, 0), gen_scalar(rng, 'bits')]
    elif kind == 'map':
        # records over the fixed field set with every presence pattern that matters, and
        # element lists of every size around the size boundaries
        sub = {}
        for f in FIELDS:
            subtrees = [s for ff, s in _with_fields(c) if ff == ('text', f)]
            vals = []
            for s in subtrees:
                vals += candidates(rng, s, FIELD_KIND[f], 6)
            sub[f] = vals or [gen_scalar(rng, FIELD_KIND[f])]
        for _ in range(10):
            m = []
            for f in FIELDS:
                if rng.random() < 0.6:
                    m.append((('text', f), rng.choice(sub[f])))
            out.append(('map', m))
        for n in b['sizes']:
            for m in (n - 1, n, n + 1):
                if 0 <= m <= 8:
                    out.append(('map', [(('int', i), ('int', rng.randrange(0, 5))) for i in range(m)]))
        out.append(('map', []))
    elif kind.startswith('comp:'):
        out += candidates(rng, c, kind[5:], limit - 1) + [None]
    uniq = []
    for v in out:
        if v not in uniq:
            uniq.append(v)
    rng.shuffle(uniq)
    return uniq[:limit]


def _with_fields(c):
    k = c[0]
    if k == 'with':
        out = list(c[1])
        for _, s in c[1]:
            out += _with_fields(s)
        return out
    if k == 'contained':
        return [p for s in c[1] + c[3] for p in _with_fields(s)]
    if k == 'inner':
        return [p for _, s in c[1] for p in _with_fields(s)]
    if k in ('and', 'or', 'excl'):
        return [p for s in c[1] for p in _with_fields(s)]
    return []


def idx_candidates(rng, c):
    b = boundaries(c, {'consts': [], 'alpha': [], 'ints': [], 'sizes': [], 'fields': [], 'idx': []})
    if not b['idx']:
        return [None]
    out = [None]
    for i in b['idx']:
        if i not in out:
            out.append(i)
    out.append(('int', 7))
    return out
